package c17

import (
	"time"
	"fmt"
	"net"
	"runtime"
	"sync"
	"sync/atomic"
	"testing"

	"github.com/anishathalye/porcupine"
	"pgregory.net/rapid"

	"github.com/TheManticoreProject/Manticore/network/netbios/nbtns"

	"manticoreverif/vf"
)

const P = "C17"

type seqCase struct {
	Ops    []op `json:"ops"`
	NNames int  `json:"names"`
}

type kept struct {
	step  int
	slice []net.IP
	copy  []net.IP
}

func scan(tbl *nbtns.NetBIOSNameServer, nNames int) (string, string) {
	var s string
	for k := 0; k < nNames; k++ {
		owners, typ, err := tbl.QueryName(names[k])
		if err != nil {
			s += fmt.Sprintf("%d=false//0;", k)
			continue
		}
		key, dup := ownersKey(owners)
		if dup {
			return s, fmt.Sprintf("%s has duplicate owners %v", names[k], owners)
		}
		if nbtns.NameType(typ) == nbtns.Unique && len(owners) != 1 {
			return s, fmt.Sprintf("unique name %s has %d owners %v", names[k], len(owners), owners)
		}
		s += fmt.Sprintf("%d=true/%s/%d;", k, key, typ)
	}
	return s, ""
}

// checkSequence runs the operations against a fresh table and the model and
// compares after every step: result class, a full scan, and every slice a
// Query has ever returned.
func checkSequence(c seqCase) []vf.Finding {
	tbl := nbtns.NewNetBIOSNameServer(false)
	cands := []state{{}}
	var keptSlices []kept
	for i, o := range c.Ops {
		res, owners := run(tbl, o)
		if owners != nil {
			cp := make([]net.IP, len(owners))
			for j, ip := range owners {
				cp[j] = append(net.IP{}, ip...)
			}
			keptSlices = append(keptSlices, kept{i, owners, cp})
		}
		// every candidate model state (more than one only after an undetermined outcome)
		var next []state
		for _, st := range cands {
			for _, out := range apply(st, o) {
				if out.Res == res {
					next = append(next, out.Next)
				}
			}
		}
		if len(next) == 0 {
			want := apply(cands[0], o)
			return []vf.Finding{vf.F("NetBIOSNameServer."+o.Kind, "result-differs-from-atomic-map", "step %d %s returned %+v, the model allows %+v; history: %s", i, o, res, want[0].Res, seqString(c.Ops[:i+1]))}
		}
		got, inv := scan(tbl, c.NNames)
		if inv != "" {
			return []vf.Finding{vf.F("NetBIOSNameServer."+o.Kind, "ownership-invariant-broken", "after step %d %s: %s; history: %s", i, o, inv, seqString(c.Ops[:i+1]))}
		}
		var match []state
		seen := map[string]bool{}
		for _, st := range next {
			if st.visible(c.NNames) == got && !seen[st.key()] {
				seen[st.key()] = true
				match = append(match, st)
			}
		}
		if len(match) == 0 {
			return []vf.Finding{vf.F("NetBIOSNameServer."+o.Kind, "table-differs-from-atomic-map", "after step %d %s: scan %s, model %s; history: %s", i, o, got, next[0].visible(c.NNames), seqString(c.Ops[:i+1]))}
		}
		cands = match
		// results already returned never change
		for _, k := range keptSlices {
			for j := range k.copy {
				if !k.slice[j].Equal(k.copy[j]) || len(k.slice) != len(k.copy) {
					return []vf.Finding{vf.F("NetBIOSNameServer.QueryName", "returned-slice-changed-by-later-update", "result of step %d changed after step %d %s: was %v now %v; history: %s", k.step, i, o, k.copy, k.slice, seqString(c.Ops[:i+1]))}
				}
			}
		}
	}
	// mutating a returned slice must not reach the table
	if len(keptSlices) > 0 {
		before, _ := scan(tbl, c.NNames)
		for _, k := range keptSlices {
			for j := range k.slice {
				k.slice[j] = addrs[5]
			}
		}
		after, _ := scan(tbl, c.NNames)
		if before != after {
			return []vf.Finding{vf.F("NetBIOSNameServer.QueryName", "returned-slice-aliases-table", "overwriting returned slices changed the table: %s -> %s; history: %s", before, after, seqString(c.Ops))}
		}
	}
	return nil
}

func alphabet(nNames, nIPs int) []op {
	var a []op
	for n := 0; n < nNames; n++ {
		for t := 0; t < 2; t++ {
			for ip := 0; ip < nIPs; ip++ {
				a = append(a, op{Kind: "reg", Name: n, Type: t, IP: ip})
			}
		}
		a = append(a, op{Kind: "query", Name: n})
		for ip := 0; ip < nIPs; ip++ {
			a = append(a, op{Kind: "rel", Name: n, IP: ip}, op{Kind: "refresh", Name: n, IP: ip})
		}
		a = append(a, op{Kind: "conflict", Name: n})
	}
	return append(a, op{Kind: "clean"})
}

func seqNontrivial(c seqCase) bool {
	reg := map[int]bool{}
	for _, o := range c.Ops {
		if o.Kind == "reg" {
			reg[o.Name] = true
		}
		if (o.Kind == "rel" || o.Kind == "conflict" || o.Kind == "clean") && (reg[o.Name] || (o.Kind == "clean" && len(reg) > 0)) {
			return true
		}
	}
	return false
}

func TestSeqExhaustive(t *testing.T) {
	s := vf.Begin(t, P, "seq-exhaustive")
	s.SetExhaustive()
	alpha := alphabet(2, 3)
	depth := vf.Size(4, 5)
	s.Note("all sequences of length 1..%d over %d distinct calls (2 names x {Unique,Group} x 3 addresses; one name never expires, the other always does)", depth, len(alpha))
	vf.Enum(s, func(yield func(seqCase)) {
		idx := make([]int, depth)
		for d := 1; d <= depth; d++ {
			for i := range idx[:d] {
				idx[i] = 0
			}
			for {
				ops := make([]op, d)
				for i := 0; i < d; i++ {
					ops[i] = alpha[idx[i]]
				}
				yield(seqCase{ops, 2})
				i := d - 1
				for i >= 0 {
					idx[i]++
					if idx[i] < len(alpha) {
						break
					}
					idx[i] = 0
					i--
				}
				if i < 0 {
					break
				}
			}
		}
	}, checkSequence, seqNontrivial)
}

func genOp(t *rapid.T, nNames, nIPs int) op {
	n := rapid.IntRange(0, nNames-1).Draw(t, "name")
	ip := rapid.IntRange(0, nIPs-1).Draw(t, "ip")
	switch rapid.IntRange(0, 11).Draw(t, "kind") {
	case 0, 1, 2, 3:
		return op{Kind: "reg", Name: n, Type: rapid.IntRange(0, 1).Draw(t, "type"), IP: ip}
	case 4, 5:
		return op{Kind: "query", Name: n}
	case 6, 7:
		return op{Kind: "rel", Name: n, IP: ip}
	case 8:
		return op{Kind: "refresh", Name: n, IP: ip}
	case 9:
		return op{Kind: "conflict", Name: n}
	case 10:
		return op{Kind: "clean"}
	}
	return op{Kind: "query", Name: n}
}

func TestSeqRandom(t *testing.T) {
	s := vf.Begin(t, P, "seq-random")
	vf.Rapid(s, vf.N(5000, 80000), func(t *rapid.T) seqCase {
		n := rapid.IntRange(20, 200).Draw(t, "len")
		ops := make([]op, n)
		for i := range ops {
			ops[i] = genOp(t, 5, 6)
		}
		return seqCase{ops, 5}
	}, checkSequence, seqNontrivial)
}

// ---- concurrent programs, judged by linearizability against the same model -----------------------------

type progCase struct {
	Threads [][]op `json:"threads"`
	Yield   []bool `json:"yield_before"` // Gosched injection, consumed round-robin
	Procs   int    `json:"gomaxprocs"`
}

type call struct {
	Op  op
	Res result
}

var modelNNames = 3

var pmodel = porcupine.Model{
	Init: func() interface{} { return state{} },
	Step: func(st, in, out interface{}) (bool, interface{}) {
		s := st.(state)
		for _, o := range apply(s, in.(op)) {
			if o.Res == out.(result) {
				return true, o.Next
			}
		}
		return false, s
	},
	Equal: func(a, b interface{}) bool { return a.(state).key() == b.(state).key() },
	DescribeOperation: func(in, out interface{}) string {
		return fmt.Sprintf("%s -> %+v", in.(op), out.(result))
	},
}

func runProgram(c progCase) (hist []porcupine.Operation, dupInv string) {
	tbl := nbtns.NewNetBIOSNameServer(false)
	var clock int64
	var mu sync.Mutex
	var wg sync.WaitGroup
	start := make(chan struct{})
	yi := int64(0)
	for tid, th := range c.Threads {
		wg.Add(1)
		go func(tid int, th []op) {
			defer wg.Done()
			<-start
			for _, o := range th {
				if len(c.Yield) > 0 && c.Yield[int(atomic.AddInt64(&yi, 1))%len(c.Yield)] {
					runtime.Gosched()
				}
				callT := atomic.AddInt64(&clock, 1)
				res, owners := run(tbl, o)
				retT := atomic.AddInt64(&clock, 1)
				inv := ""
				if owners != nil {
					if _, dup := ownersKey(owners); dup {
						inv = fmt.Sprintf("%s returned duplicate owners %v", o, owners)
					}
					if res.Type == 0 && len(owners) != 1 {
						inv = fmt.Sprintf("%s: unique name with %d owners", o, len(owners))
					}
				}
				mu.Lock()
				hist = append(hist, porcupine.Operation{ClientId: tid, Input: o, Call: callT, Output: res, Return: retT})
				if inv != "" {
					dupInv = inv
				}
				mu.Unlock()
			}
		}(tid, th)
	}
	close(start)
	wg.Wait()
	// final scan, sequentially after everything: must agree with some linearization
	for k := 0; k < modelNNames; k++ {
		o := op{Kind: "query", Name: k}
		callT := atomic.AddInt64(&clock, 1)
		res, _ := run(tbl, o)
		retT := atomic.AddInt64(&clock, 1)
		hist = append(hist, porcupine.Operation{ClientId: len(c.Threads), Input: o, Call: callT, Output: res, Return: retT})
	}
	return
}

var concRuns int64

func checkProgram(c progCase) []vf.Finding {
	runs := vf.N(20, 300)
	for r := 0; r < runs; r++ {
		procs := []int{2, 4, 16}[r%3]
		if c.Procs > 0 {
			procs = c.Procs
		}
		old := runtime.GOMAXPROCS(procs)
		hist, inv := runProgram(c)
		runtime.GOMAXPROCS(old)
		atomic.AddInt64(&concRuns, 1)
		if inv != "" {
			return []vf.Finding{vf.F("NetBIOSNameServer", "ownership-invariant-broken", "%s (run %d, GOMAXPROCS %d)", inv, r, procs)}
		}
		if res := porcupine.CheckOperations(pmodel, hist); !res {
			var lines []string
			for _, h := range hist {
				lines = append(lines, fmt.Sprintf("[t%d %d-%d] %s -> %+v", h.ClientId, h.Call, h.Return, h.Input.(op), h.Output.(result)))
			}
			return []vf.Finding{vf.F("NetBIOSNameServer", "history-not-linearizable", "run %d GOMAXPROCS %d: %v", r, procs, lines)}
		}
	}
	return nil
}

func TestConcurrentLinearizable(t *testing.T) {
	s := vf.Begin(t, P, "concurrent-linearizable")
	vf.Rapid(s, vf.N(150, 600), func(t *rapid.T) progCase {
		nt := rapid.IntRange(2, 4).Draw(t, "threads")
		c := progCase{}
		// most programs fight over one or two names
		nn := rapid.SampledFrom([]int{1, 2, 2, 3}).Draw(t, "names")
		for i := 0; i < nt; i++ {
			k := rapid.IntRange(3, 8).Draw(t, "ops")
			th := make([]op, k)
			for j := range th {
				th[j] = genOp(t, nn, 4)
			}
			c.Threads = append(c.Threads, th)
		}
		c.Yield = rapid.SliceOfN(rapid.Bool(), 1, 16).Draw(t, "yield")
		return c
	}, checkProgram, func(c progCase) bool {
		touched := map[int]int{}
		for tid, th := range c.Threads {
			seen := map[int]bool{}
			for _, o := range th {
				if o.Kind != "clean" && !seen[o.Name] {
					seen[o.Name] = true
					touched[o.Name]++
				}
			}
			_ = tid
		}
		for _, n := range touched {
			if n >= 2 {
				return true
			}
		}
		return false
	})
	s.Count("program-executions", atomic.LoadInt64(&concRuns))
}

// a fixed stress: many goroutines registering/releasing/querying one group name; the race detector and
// the invariants are the oracle (no linearizability check: the history is too long for it)
func TestRaceStress(t *testing.T) {
	s := vf.Begin(t, P, "race-stress")
	type sc struct {
		Goroutines int `json:"goroutines"`
		Rounds     int `json:"rounds"`
	}
	vf.Enum(s, func(yield func(sc)) {
		yield(sc{4, vf.N(400, 5000)})
		yield(sc{16, vf.N(200, 3000)})
	}, func(c sc) []vf.Finding {
		tbl := nbtns.NewNetBIOSNameServer(false)
		var wg sync.WaitGroup
		var bad atomic.Value
		for g := 0; g < c.Goroutines; g++ {
			wg.Add(1)
			go func(g int) {
				defer wg.Done()
				ip := net.IPv4(10, 1, byte(g), 1).To4()
				for r := 0; r < c.Rounds; r++ {
					tbl.RegisterName("GRP", nbtns.Group, ip, time.Hour)
					tbl.RegisterName("UNQ", nbtns.Unique, ip, time.Hour)
					if owners, typ, err := tbl.QueryName("GRP"); err == nil {
						seen := map[string]bool{}
						for _, o := range owners {
							if seen[o.String()] {
								bad.Store(fmt.Sprintf("duplicate owner %v in %v", o, owners))
							}
							seen[o.String()] = true
						}
						_ = typ
						if len(owners) > 0 {
							owners[0] = nil // scribble on our copy
						}
					}
					if owners, _, err := tbl.QueryName("UNQ"); err == nil && len(owners) != 1 {
						bad.Store(fmt.Sprintf("unique name with owners %v", owners))
					}
					tbl.RefreshName("GRP", ip)
					tbl.ReleaseName("UNQ", ip)
					tbl.ReleaseName("GRP", ip)
					if r%50 == 0 {
						tbl.CleanExpiredNames()
					}
				}
			}(g)
		}
		wg.Wait()
		if v := bad.Load(); v != nil {
			return []vf.Finding{vf.F("NetBIOSNameServer", "ownership-invariant-broken", "%v", v)}
		}
		if _, _, err := tbl.QueryName("GRP"); err == nil {
			return []vf.Finding{vf.F("NetBIOSNameServer", "group-not-deleted-after-last-release", "GRP still present after every goroutine released it")}
		}
		return nil
	}, nil)
}
