// Package c17: NBNS name table keeps ownership invariants under all histories and schedules.
package c17

import (
	"fmt"
	"net"
	"sort"
	"strings"
	"time"

	"github.com/TheManticoreProject/Manticore/network/netbios/nbtns"
)

// ---- alphabet -------------------------------------------------------------------------------

// Names whose index is odd are registered with a TTL in the past, so that they
// are always expired at the next sweep; even ones never expire. This keeps
// expiry independent of the clock and of scheduling.
var names = []string{"ALPHA", "BRAVO", "CHARLIE", "DELTA", "ECHO"}

func ttlOf(name int) time.Duration {
	if name%2 == 1 {
		return -time.Hour
	}
	return time.Hour
}

// addresses; 3 and 4 are the same address in 4-byte and 16-byte form
var addrs = []net.IP{
	net.IPv4(10, 0, 0, 1).To4(), net.IPv4(10, 0, 0, 2).To4(), net.IPv4(10, 0, 0, 3).To4(),
	net.IPv4(192, 168, 7, 7).To4(), net.IPv4(192, 168, 7, 7).To16(), net.ParseIP("fe80::1"),
}

// canonical address id: ids that net.IP.Equal identifies map to the same id
func canon(ip int) int {
	if ip == 4 {
		return 3
	}
	return ip
}

type op struct {
	Kind string `json:"op"` // reg, query, rel, refresh, conflict, clean
	Name int    `json:"name"`
	Type int    `json:"type,omitempty"` // 0 unique, 1 group
	IP   int    `json:"ip,omitempty"`
}

func (o op) String() string {
	switch o.Kind {
	case "reg":
		return fmt.Sprintf("Register(%s,%s,ip%d)", names[o.Name], []string{"Unique", "Group"}[o.Type], o.IP)
	case "query":
		return fmt.Sprintf("Query(%s)", names[o.Name])
	case "rel":
		return fmt.Sprintf("Release(%s,ip%d)", names[o.Name], o.IP)
	case "refresh":
		return fmt.Sprintf("Refresh(%s,ip%d)", names[o.Name], o.IP)
	case "conflict":
		return fmt.Sprintf("MarkConflict(%s)", names[o.Name])
	}
	return "CleanExpired()"
}

func seqString(ops []op) string {
	parts := make([]string, len(ops))
	for i, o := range ops {
		parts[i] = o.String()
	}
	return strings.Join(parts, "; ")
}

// ---- observable result of a call ---------------------------------------------------------------

type result struct {
	OK     bool
	Owners string // query only: sorted canonical owner ids, e.g. "0,2"
	Type   int    // query only
}

func ownersKey(ips []net.IP) (string, bool) {
	var ids []int
	dup := false
	for _, ip := range ips {
		id := -1
		for i, a := range addrs {
			if a.Equal(ip) {
				id = canon(i)
				break
			}
		}
		for _, x := range ids {
			if x == id {
				dup = true
			}
		}
		ids = append(ids, id)
	}
	sort.Ints(ids)
	parts := make([]string, len(ids))
	for i, x := range ids {
		parts[i] = fmt.Sprint(x)
	}
	return strings.Join(parts, ","), dup
}

func run(tbl *nbtns.NetBIOSNameServer, o op) (result, []net.IP) {
	switch o.Kind {
	case "reg":
		err := tbl.RegisterName(names[o.Name], nbtns.NameType(o.Type), addrs[o.IP], ttlOf(o.Name))
		return result{OK: err == nil}, nil
	case "query":
		owners, typ, err := tbl.QueryName(names[o.Name])
		if err != nil {
			return result{}, nil
		}
		k, _ := ownersKey(owners)
		return result{OK: true, Owners: k, Type: int(typ)}, owners
	case "rel":
		return result{OK: tbl.ReleaseName(names[o.Name], addrs[o.IP]) == nil}, nil
	case "refresh":
		return result{OK: tbl.RefreshName(names[o.Name], addrs[o.IP]) == nil}, nil
	case "conflict":
		return result{OK: tbl.MarkNameConflict(names[o.Name]) == nil}, nil
	}
	tbl.CleanExpiredNames()
	return result{OK: true}, nil
}

// ---- reference model: an atomic map ---------------------------------------------------------------

type rec struct {
	Type     int
	Conflict bool
	Owners   []int // canonical ids in registration order, no duplicates
}

// state is immutable by convention; canonical string form for hashing/equality
type state map[int]rec

func (s state) clone() state {
	n := state{}
	for k, v := range s {
		n[k] = rec{v.Type, v.Conflict, append([]int{}, v.Owners...)}
	}
	return n
}

func (s state) key() string {
	var ks []int
	for k := range s {
		ks = append(ks, k)
	}
	sort.Ints(ks)
	var sb strings.Builder
	for _, k := range ks {
		r := s[k]
		os := append([]int{}, r.Owners...)
		sort.Ints(os)
		fmt.Fprintf(&sb, "%d:%d:%v:%v;", k, r.Type, r.Conflict, os)
	}
	return sb.String()
}

func has(os []int, x int) bool {
	for _, o := range os {
		if o == x {
			return true
		}
	}
	return false
}

type outcome struct {
	Res  result
	Next state
}

// apply returns every (result, next state) the property allows for o in state s.
// Where the property determines the outcome there is exactly one.
func apply(s state, o op) []outcome {
	ip := canon(o.IP)
	r, exists := s[o.Name]
	same := func(ok bool) outcome { return outcome{result{OK: ok}, s} }
	switch o.Kind {
	case "reg":
		if !exists {
			n := s.clone()
			n[o.Name] = rec{Type: o.Type, Owners: []int{ip}}
			return []outcome{{result{OK: true}, n}}
		}
		var outs []outcome
		switch {
		case r.Type == 1 && o.Type == 1:
			if has(r.Owners, ip) {
				outs = []outcome{same(true)}
			} else {
				n := s.clone()
				x := n[o.Name]
				x.Owners = append(x.Owners, ip)
				n[o.Name] = x
				outs = []outcome{{result{OK: true}, n}}
			}
		case r.Type == 0 && o.Type == 0 && has(r.Owners, ip):
			// the owner registers its own unique name again: not determined by the property
			outs = []outcome{same(false), same(true)}
		case r.Type == 0 && o.Type == 0:
			outs = []outcome{same(false)} // a unique name is held by one address only
		default:
			// type mismatch with an existing record: refused; an unchanged success is tolerated
			// only for a current owner
			outs = []outcome{same(false)}
			if has(r.Owners, ip) {
				outs = append(outs, same(true))
			}
		}
		if r.Conflict {
			// a conflict-marked name: the property does not say whether it can be registered
			// again. Refusal, or a fresh record for the new registrant, both keep the invariants.
			fresh := s.clone()
			fresh[o.Name] = rec{Type: o.Type, Owners: []int{ip}}
			outs = append(outs, same(false), outcome{result{OK: true}, fresh})
		}
		return outs
	case "query":
		if !exists || r.Conflict {
			return []outcome{{result{}, s}}
		}
		os := append([]int{}, r.Owners...)
		sort.Ints(os)
		parts := make([]string, len(os))
		for i, x := range os {
			parts[i] = fmt.Sprint(x)
		}
		return []outcome{{result{OK: true, Owners: strings.Join(parts, ","), Type: r.Type}, s}}
	case "rel":
		if !exists || !has(r.Owners, ip) {
			return []outcome{same(false)}
		}
		n := s.clone()
		x := n[o.Name]
		var keep []int
		for _, w := range x.Owners {
			if w != ip {
				keep = append(keep, w)
			}
		}
		if len(keep) == 0 {
			delete(n, o.Name)
		} else {
			x.Owners = keep
			n[o.Name] = x
		}
		return []outcome{{result{OK: true}, n}}
	case "refresh":
		return []outcome{same(exists && has(r.Owners, ip))}
	case "conflict":
		if !exists {
			return []outcome{same(false)}
		}
		n := s.clone()
		x := n[o.Name]
		x.Conflict = true
		n[o.Name] = x
		return []outcome{{result{OK: true}, n}}
	}
	// clean: every name registered with a TTL in the past disappears
	n := s.clone()
	for k := range n {
		if ttlOf(k) < 0 {
			delete(n, k)
		}
	}
	return []outcome{{result{OK: true}, n}}
}

// visible is what a full scan with Query sees of a state.
func (s state) visible(nNames int) string {
	var sb strings.Builder
	for k := 0; k < nNames; k++ {
		outs := apply(s, op{Kind: "query", Name: k})
		fmt.Fprintf(&sb, "%d=%v/%s/%d;", k, outs[0].Res.OK, outs[0].Res.Owners, outs[0].Res.Type)
	}
	return sb.String()
}
