// Package c17: NBNS name table keeps ownership invariants under all histories and schedules.
package c17

import (
	"fmt"
	"net"
	"sort"
	"strings"
	"time"

	"github.com/TheManticoreProject/Manticore/network/netbios/nbtns"
)

// ---- alphabet -------------------------------------------------------------------------------

// The table is keyed by the name string as passed (a NetBIOS name is 16 significant bytes, the last
// one being the service suffix): names 5..8 are full 16-byte names that differ from each other only
// in the suffix byte (5/6), only in letter case (6/7) or only in the padding bytes (6/8). Every
// entry is a distinct name to the model.
var names = []string{"ALPHA", "BRAVO", "CHARLIE", "DELTA", "ECHO",
	"FILESRV        \x00", "FILESRV        \x20", "filesrv        \x20", "FILESRV\x00\x00\x00\x00\x00\x00\x00\x00\x20"}

// TTLs are hours in the past or in the future, so that expiry is independent of the clock and of
// scheduling: no run lasts an hour. A registration carries a TTL code: 0 = by name (odd index: one
// hour in the past, so that the name is always expired at the next sweep; even index: one hour
// ahead), 1 = +1h, 2 = -1h, 3 = +1000h.
func ttlOf(o op) time.Duration {
	switch o.TTL {
	case 1:
		return time.Hour
	case 2:
		return -time.Hour
	case 3:
		return 1000 * time.Hour
	}
	if o.Name%2 == 1 {
		return -time.Hour
	}
	return time.Hour
}

func ttlString(o op) string {
	d := ttlOf(o)
	if d < 0 {
		return "-" + (-d).String()
	}
	return "+" + d.String()
}

// addresses; 3 and 4 are the same address in 4-byte and 16-byte form. 6.. exist so that a group can
// grow well beyond a handful of owners.
var addrs = []net.IP{
	net.IPv4(10, 0, 0, 1).To4(), net.IPv4(10, 0, 0, 2).To4(), net.IPv4(10, 0, 0, 3).To4(),
	net.IPv4(192, 168, 7, 7).To4(), net.IPv4(192, 168, 7, 7).To16(), net.ParseIP("fe80::1"),
	net.IPv4(10, 0, 1, 6).To4(), net.IPv4(10, 0, 1, 7).To4(), net.IPv4(10, 0, 1, 8).To4(), net.IPv4(10, 0, 1, 9).To4(),
	net.IPv4(10, 0, 1, 10).To4(), net.IPv4(10, 0, 1, 11).To4(), net.IPv4(10, 0, 1, 12).To4(), net.IPv4(10, 0, 1, 13).To4(),
	net.IPv4(10, 0, 1, 14).To4(), net.IPv4(10, 0, 1, 15).To4(),
}

// canonical address id: ids that net.IP.Equal identifies map to the same id
func canon(ip int) int {
	if ip == 4 {
		return 3
	}
	return ip
}

type op struct {
	Kind string `json:"op"` // reg, query, rel, refresh, conflict, clean
	Name int    `json:"name"`
	Type int    `json:"type,omitempty"` // 0 unique, 1 group
	IP   int    `json:"ip,omitempty"`
	TTL  int    `json:"ttl,omitempty"` // reg only, see ttlOf
}

func nameString(i int) string { return fmt.Sprintf("%q", names[i]) }

func (o op) String() string {
	switch o.Kind {
	case "reg":
		return fmt.Sprintf("Register(%s,%s,ip%d,%s)", nameString(o.Name), []string{"Unique", "Group"}[o.Type], o.IP, ttlString(o))
	case "query":
		return fmt.Sprintf("Query(%s)", nameString(o.Name))
	case "rel":
		return fmt.Sprintf("Release(%s,ip%d)", nameString(o.Name), o.IP)
	case "refresh":
		return fmt.Sprintf("Refresh(%s,ip%d)", nameString(o.Name), o.IP)
	case "conflict":
		return fmt.Sprintf("MarkConflict(%s)", nameString(o.Name))
	}
	return "CleanExpired()"
}

func seqString(ops []op) string {
	parts := make([]string, len(ops))
	for i, o := range ops {
		parts[i] = o.String()
	}
	return strings.Join(parts, "; ")
}

// ---- observable result of a call ---------------------------------------------------------------

type result struct {
	OK     bool
	Owners string // query only: sorted canonical owner ids, e.g. "0,2"
	Type   int    // query only
}

func ownersKey(ips []net.IP) (string, bool) {
	var ids []int
	dup := false
	for _, ip := range ips {
		id := -1
		for i, a := range addrs {
			if a.Equal(ip) {
				id = canon(i)
				break
			}
		}
		for _, x := range ids {
			if x == id {
				dup = true
			}
		}
		ids = append(ids, id)
	}
	sort.Ints(ids)
	parts := make([]string, len(ids))
	for i, x := range ids {
		parts[i] = fmt.Sprint(x)
	}
	return strings.Join(parts, ","), dup
}

func run(tbl *nbtns.NetBIOSNameServer, o op) (result, []net.IP) {
	switch o.Kind {
	case "reg":
		err := tbl.RegisterName(names[o.Name], nbtns.NameType(o.Type), addrs[o.IP], ttlOf(o))
		return result{OK: err == nil}, nil
	case "query":
		owners, typ, err := tbl.QueryName(names[o.Name])
		if err != nil {
			return result{}, nil
		}
		k, _ := ownersKey(owners)
		return result{OK: true, Owners: k, Type: int(typ)}, owners
	case "rel":
		return result{OK: tbl.ReleaseName(names[o.Name], addrs[o.IP]) == nil}, nil
	case "refresh":
		return result{OK: tbl.RefreshName(names[o.Name], addrs[o.IP]) == nil}, nil
	case "conflict":
		return result{OK: tbl.MarkNameConflict(names[o.Name]) == nil}, nil
	}
	tbl.CleanExpiredNames()
	return result{OK: true}, nil
}

// ---- reference model: an atomic map ---------------------------------------------------------------

// expiry of a record at the next sweep
const (
	live = 0 // expiry lies hours ahead: a sweep must keep the name
	dead = 1 // expiry lies hours back: a sweep must remove the name
	open = 2 // not determined by the documented behaviour: a sweep may do either
)

type rec struct {
	Type     int
	Conflict bool
	Owners   []int // canonical ids in registration order, no duplicates
	Exp      int   // live, dead, open
	RI       int   // sign of the refresh interval = sign of the TTL of the registration that created the record
}

// state is immutable by convention; canonical string form for hashing/equality
type state map[int]rec

func (s state) clone() state {
	n := state{}
	for k, v := range s {
		v.Owners = append([]int{}, v.Owners...)
		n[k] = v
	}
	return n
}

func (s state) key() string {
	var ks []int
	for k := range s {
		ks = append(ks, k)
	}
	sort.Ints(ks)
	var sb strings.Builder
	for _, k := range ks {
		r := s[k]
		os := append([]int{}, r.Owners...)
		sort.Ints(os)
		fmt.Fprintf(&sb, "%d:%d:%v:%v:%d:%d;", k, r.Type, r.Conflict, os, r.Exp, r.RI)
	}
	return sb.String()
}

func has(os []int, x int) bool {
	for _, o := range os {
		if o == x {
			return true
		}
	}
	return false
}

type outcome struct {
	Res  result
	Next state
}

func expOf(ttl int64) int {
	if ttl < 0 {
		return dead
	}
	return live
}

// A registration that succeeds on an existing record (a member joining a group, a member or owner
// registering again) carries a TTL of its own. Whether it moves the record's expiry is not stated
// anywhere: it stays determined only if the new TTL points the same way as the current expiry.
func merge(cur, ttlExp int) int {
	if cur == ttlExp {
		return cur
	}
	return open
}

// apply returns every (result, next state) the property allows for o in state s.
// Where the property determines the outcome there is exactly one.
func apply(s state, o op) []outcome {
	ip := canon(o.IP)
	r, exists := s[o.Name]
	same := func(ok bool) outcome { return outcome{result{OK: ok}, s} }
	switch o.Kind {
	case "reg":
		te := expOf(int64(ttlOf(o)))
		ri := 1
		if te == dead {
			ri = -1
		}
		if !exists {
			n := s.clone()
			n[o.Name] = rec{Type: o.Type, Owners: []int{ip}, Exp: te, RI: ri}
			return []outcome{{result{OK: true}, n}}
		}
		// success that leaves the owners as they are (expiry possibly moved by the new TTL)
		again := func() outcome {
			n := s.clone()
			x := n[o.Name]
			x.Exp = merge(x.Exp, te)
			n[o.Name] = x
			return outcome{result{OK: true}, n}
		}
		var outs []outcome
		switch {
		case r.Type == 1 && o.Type == 1:
			if has(r.Owners, ip) {
				outs = []outcome{again()}
			} else {
				n := s.clone()
				x := n[o.Name]
				x.Owners = append(x.Owners, ip)
				x.Exp = merge(x.Exp, te)
				n[o.Name] = x
				outs = []outcome{{result{OK: true}, n}}
			}
		case r.Type == 0 && o.Type == 0 && has(r.Owners, ip):
			// the owner registers its own unique name again: not determined by the property
			outs = []outcome{same(false), again()}
		case r.Type == 0 && o.Type == 0:
			outs = []outcome{same(false)} // a unique name is held by one address only
		default:
			// type mismatch with an existing record: refused; an unchanged success is tolerated
			// only for a current owner
			outs = []outcome{same(false)}
			if has(r.Owners, ip) {
				outs = append(outs, again())
			}
		}
		if r.Conflict {
			// a conflict-marked name: the property does not say whether it can be registered
			// again. Refusal, or a fresh record for the new registrant, both keep the invariants.
			fresh := s.clone()
			fresh[o.Name] = rec{Type: o.Type, Owners: []int{ip}, Exp: te, RI: ri}
			outs = append(outs, same(false), outcome{result{OK: true}, fresh})
		}
		return outs
	case "query":
		if !exists || r.Conflict {
			return []outcome{{result{}, s}}
		}
		os := append([]int{}, r.Owners...)
		sort.Ints(os)
		parts := make([]string, len(os))
		for i, x := range os {
			parts[i] = fmt.Sprint(x)
		}
		return []outcome{{result{OK: true, Owners: strings.Join(parts, ","), Type: r.Type}, s}}
	case "rel":
		if !exists || !has(r.Owners, ip) {
			return []outcome{same(false)}
		}
		n := s.clone()
		x := n[o.Name]
		var keep []int
		for _, w := range x.Owners {
			if w != ip {
				keep = append(keep, w)
			}
		}
		if len(keep) == 0 {
			delete(n, o.Name)
		} else {
			x.Owners = keep
			n[o.Name] = x
		}
		return []outcome{{result{OK: true}, n}}
	case "refresh":
		if !exists || !has(r.Owners, ip) {
			return []outcome{same(false)}
		}
		// "RefreshName updates the TTL for a name registration": a successful refresh moves the
		// expiry to now + refresh interval. With an interval of +1h/+1000h the name is live again
		// whatever its expiry was; a negative interval (a device of this check) is only held to
		// keep a name dead that was dead already.
		n := s.clone()
		x := n[o.Name]
		if x.RI > 0 {
			x.Exp = live
		} else {
			x.Exp = merge(x.Exp, dead)
		}
		n[o.Name] = x
		return []outcome{{result{OK: true}, n}}
	case "conflict":
		if !exists {
			return []outcome{same(false)}
		}
		n := s.clone()
		x := n[o.Name]
		x.Conflict = true
		n[o.Name] = x
		return []outcome{{result{OK: true}, n}}
	}
	// clean: every name whose expiry lies in the past disappears, every name whose expiry lies ahead
	// stays; one outcome per choice for the names whose expiry is open
	outs := []outcome{{result{OK: true}, s.clone()}}
	var ks []int
	for k := range s {
		ks = append(ks, k)
	}
	sort.Ints(ks)
	for _, k := range ks {
		switch s[k].Exp {
		case dead:
			for _, o := range outs {
				delete(o.Next, k)
			}
		case open:
			m := len(outs)
			for i := 0; i < m; i++ {
				gone := outs[i].Next.clone()
				delete(gone, k)
				outs = append(outs, outcome{result{OK: true}, gone})
			}
		}
	}
	return outs
}

// visible is what a full scan with Query sees of a state.
func (s state) visible(scan []int) string {
	var sb strings.Builder
	for _, k := range scan {
		outs := apply(s, op{Kind: "query", Name: k})
		fmt.Fprintf(&sb, "%d=%v/%s/%d;", k, outs[0].Res.OK, outs[0].Res.Owners, outs[0].Res.Type)
	}
	return sb.String()
}
