// Package c17: NBNS name table keeps ownership invariants under all histories and schedules.
package c17

import (
	"fmt"
	"net"
	"sort"
	"strings"
	"time"

	"github.com/TheManticoreProject/Manticore/network/netbios/nbtns"
)

// ---- alphabet -------------------------------------------------------------------------------

// The table is keyed by the name string as passed (a NetBIOS name is 16 significant bytes, the last
// one being the service suffix): names 5..7 are full 16-byte names that differ from each other only
// in the suffix byte (5/6) or only in the padding bytes (6/7). Every entry is a distinct name to the
// model. No two entries differ only in letter case: whether such names are one name or two (case
// folding) is not defined by the property.
var names = []string{"ALPHA", "BRAVO", "CHARLIE", "DELTA", "ECHO",
	"FILESRV        \x00", "FILESRV        \x20", "FILESRV\x00\x00\x00\x00\x00\x00\x00\x00\x20"}

// TTLs are hours in the past or in the future, so that expiry is independent of the clock and of
// scheduling: no run lasts an hour. A registration carries a TTL code: 0 = by name (odd index: one
// hour in the past, so that the name is always expired at the next sweep; even index: one hour
// ahead), 1 = +1h, 2 = -1h, 3 = +1000h, 4 = 1ns. A time-to-live of one nanosecond is a valid,
// non-negative value; a table that keeps time to the nanosecond has it expired by the time the
// registering call has returned (run makes sure of it, see settle), one that rounds a time-to-live up
// to its own granularity (whole seconds on the wire) has not: the expiry of such a record is open
// in the model (a sweep may remove it or keep it). Names that are certainly expired come from the
// negative time-to-live, where the table accepts it (it is invalid input a table may refuse).
func ttlOf(o op) time.Duration {
	switch o.TTL {
	case 1:
		return time.Hour
	case 2:
		return -time.Hour
	case 3:
		return 1000 * time.Hour
	case 4:
		return time.Nanosecond
	}
	if o.Name%2 == 1 {
		return -time.Hour
	}
	return time.Hour
}

func ttlString(o op) string {
	d := ttlOf(o)
	if d < 0 {
		return "-" + (-d).String()
	}
	return "+" + d.String()
}

// addresses; 3 and 4 are the same address in 4-byte and 16-byte form. 6..15 exist so that a group can
// grow well beyond a handful of owners. 16.. are further IPv6 addresses (several distinct non-IPv4
// owners must stay distinct: link-local addresses that differ in the last byte only, a global one,
// the deprecated IPv4-compatible form ::10.0.0.1, which is NOT the IPv4 address 10.0.0.1) and the
// IPv4-mapped form ::ffff:10.0.0.1, which net.IP.Equal identifies with address 0. Identity of owners
// follows net.IP.Equal throughout.
var addrs = []net.IP{
	net.IPv4(10, 0, 0, 1).To4(), net.IPv4(10, 0, 0, 2).To4(), net.IPv4(10, 0, 0, 3).To4(),
	net.IPv4(192, 168, 7, 7).To4(), net.IPv4(192, 168, 7, 7).To16(), net.ParseIP("fe80::1"),
	net.IPv4(10, 0, 1, 6).To4(), net.IPv4(10, 0, 1, 7).To4(), net.IPv4(10, 0, 1, 8).To4(), net.IPv4(10, 0, 1, 9).To4(),
	net.IPv4(10, 0, 1, 10).To4(), net.IPv4(10, 0, 1, 11).To4(), net.IPv4(10, 0, 1, 12).To4(), net.IPv4(10, 0, 1, 13).To4(),
	net.IPv4(10, 0, 1, 14).To4(), net.IPv4(10, 0, 1, 15).To4(),
	net.ParseIP("fe80::2"), net.ParseIP("2001:db8::1"), net.ParseIP("::10.0.0.1"), net.ParseIP("::ffff:10.0.0.1"),
}

// address subsets the generators draw from (indices into addrs)
var (
	ipsV4    = []int{0, 1, 2}
	ipsSix   = []int{0, 1, 2, 3, 4, 5}
	ipsV6    = []int{5, 16, 17}                  // three distinct IPv6 owners
	ipsMixed = []int{0, 19, 5, 16, 17, 18, 3, 4} // both forms of two IPv4 addresses next to four IPv6 ones
	ipsAll   = func() []int {
		a := make([]int, len(addrs))
		for i := range a {
			a[i] = i
		}
		return a
	}()
)

// canonical address id: ids that net.IP.Equal identifies map to the same (lowest) id
var canonID = func() []int {
	c := make([]int, len(addrs))
	for i := range addrs {
		c[i] = i
		for j := 0; j < i; j++ {
			if addrs[j].Equal(addrs[i]) {
				c[i] = j
				break
			}
		}
	}
	return c
}()

func canon(ip int) int { return canonID[ip] }

type op struct {
	Kind string `json:"op"` // reg, query, rel, refresh, conflict, clean
	Name int    `json:"name"`
	Type int    `json:"type,omitempty"` // 0 unique, 1 group
	IP   int    `json:"ip,omitempty"`
	TTL  int    `json:"ttl,omitempty"` // reg only, see ttlOf
}

func nameString(i int) string { return fmt.Sprintf("%q", names[i]) }

func (o op) String() string {
	switch o.Kind {
	case "reg":
		return fmt.Sprintf("Register(%s,%s,ip%d,%s)", nameString(o.Name), []string{"Unique", "Group"}[o.Type], o.IP, ttlString(o))
	case "query":
		return fmt.Sprintf("Query(%s)", nameString(o.Name))
	case "rel":
		return fmt.Sprintf("Release(%s,ip%d)", nameString(o.Name), o.IP)
	case "refresh":
		return fmt.Sprintf("Refresh(%s,ip%d)", nameString(o.Name), o.IP)
	case "conflict":
		return fmt.Sprintf("MarkConflict(%s)", nameString(o.Name))
	}
	return "CleanExpired()"
}

func seqString(ops []op) string {
	parts := make([]string, len(ops))
	for i, o := range ops {
		parts[i] = o.String()
	}
	return strings.Join(parts, "; ")
}

// ---- observable result of a call ---------------------------------------------------------------

type result struct {
	OK     bool
	Owners string // query only: sorted canonical owner ids, e.g. "0,2"
	Type   int    // query only
}

func ownersKey(ips []net.IP) (string, bool) {
	var ids []int
	dup := false
	for _, ip := range ips {
		id := -1
		for i, a := range addrs {
			if a.Equal(ip) {
				id = canon(i)
				break
			}
		}
		for _, x := range ids {
			if x == id {
				dup = true
			}
		}
		ids = append(ids, id)
	}
	sort.Ints(ids)
	parts := make([]string, len(ids))
	for i, x := range ids {
		parts[i] = fmt.Sprint(x)
	}
	return strings.Join(parts, ","), dup
}

// settle returns once the clock reads at least two nanoseconds more than it did when settle was
// entered: an expiry of "now + 1ns" computed by a call that has returned before lies strictly in the
// past for every later call, whatever the clock's granularity. (It is not a delay as a correctness
// signal: the loop ends as soon as the monotonic clock has moved, normally at the first reading.)
func settle() {
	t0 := time.Now()
	for time.Since(t0) < 2*time.Nanosecond {
	}
}

func run(tbl *nbtns.NetBIOSNameServer, o op) (result, []net.IP) {
	switch o.Kind {
	case "reg":
		err := tbl.RegisterName(names[o.Name], nbtns.NameType(o.Type), addrs[o.IP], ttlOf(o))
		settle()
		return result{OK: err == nil}, nil
	case "query":
		owners, typ, err := tbl.QueryName(names[o.Name])
		if err != nil {
			return result{}, nil
		}
		k, _ := ownersKey(owners)
		return result{OK: true, Owners: k, Type: int(typ)}, owners
	case "rel":
		return result{OK: tbl.ReleaseName(names[o.Name], addrs[o.IP]) == nil}, nil
	case "refresh":
		err := tbl.RefreshName(names[o.Name], addrs[o.IP])
		settle() // the record's refresh interval may be the nanosecond of its registration
		return result{OK: err == nil}, nil
	case "conflict":
		return result{OK: tbl.MarkNameConflict(names[o.Name]) == nil}, nil
	}
	tbl.CleanExpiredNames()
	return result{OK: true}, nil
}

// ---- reference model: an atomic map ---------------------------------------------------------------

// expiry of a record at the next sweep
const (
	live = 0 // expiry lies hours ahead: a sweep must keep the name
	dead = 1 // expiry lies hours back: a sweep must remove the name
	open = 2 // not determined by the documented behaviour: a sweep may do either
)

type rec struct {
	Type     int
	Conflict bool
	Owners   []int // canonical ids in registration order, no duplicates
	Exp      int   // live, dead, open
	// RI says where a refresh puts the expiry: +1 hours ahead (the refresh interval is that of a
	// registration with a TTL of hours), -1 in the past by the next call (TTL of -1h), 0 not
	// determined (TTL of 1ns). A record is created with the interval of the creating registration; which interval
	// applies after a later successful registration on the same record (a member joining, an owner
	// registering again) is not stated by the property: if that registration's TTL points the other
	// way, the interval is undetermined from then on.
	RI int
}

// state is immutable by convention; canonical string form for hashing/equality
type state map[int]rec

func (s state) clone() state {
	n := state{}
	for k, v := range s {
		v.Owners = append([]int{}, v.Owners...)
		n[k] = v
	}
	return n
}

func (s state) key() string {
	var ks []int
	for k := range s {
		ks = append(ks, k)
	}
	sort.Ints(ks)
	var sb strings.Builder
	for _, k := range ks {
		r := s[k]
		os := append([]int{}, r.Owners...)
		sort.Ints(os)
		fmt.Fprintf(&sb, "%d:%d:%v:%v:%d:%d;", k, r.Type, r.Conflict, os, r.Exp, r.RI)
	}
	return sb.String()
}

func has(os []int, x int) bool {
	for _, o := range os {
		if o == x {
			return true
		}
	}
	return false
}

type outcome struct {
	Res  result
	Next state
}

// expOf: expiry state of a record created with the given time-to-live. Below one second (the 1ns
// code) it is open: an implementation may round a time-to-live up.
func expOf(ttl int64) int {
	switch {
	case ttl < 0:
		return dead
	case ttl < int64(time.Second):
		return open
	}
	return live
}

// riOf: sign of the refresh interval that goes with a time-to-live (see rec.RI).
func riOf(ttl int64) int {
	switch expOf(ttl) {
	case dead:
		return -1
	case open:
		return 0
	}
	return 1
}

// A registration that succeeds on an existing record (a member joining a group, a member or owner
// registering again) carries a TTL of its own. Whether it moves the record's expiry is not stated
// anywhere: it stays determined only if the new TTL points the same way as the current expiry.
func merge(cur, ttlExp int) int {
	if cur == ttlExp {
		return cur
	}
	return open
}

// mergeRI: the refresh interval after a successful registration (interval sign ri) on an existing
// record whose interval was cur.
func mergeRI(cur, ri int) int {
	if cur == ri {
		return cur
	}
	return 0
}

// apply returns every (result, next state) the property allows for o in state s.
// Where the property determines the outcome there is exactly one.
func apply(s state, o op) []outcome {
	ip := canon(o.IP)
	r, exists := s[o.Name]
	same := func(ok bool) outcome { return outcome{result{OK: ok}, s} }
	switch o.Kind {
	case "reg":
		te := expOf(int64(ttlOf(o)))
		ri := riOf(int64(ttlOf(o)))
		// A negative time-to-live is not a valid one (it is an unsigned number of seconds on the
		// wire): a table that refuses such a registration, leaving everything as it was, is within
		// the property. One that accepts it holds a name that is expired from the start.
		var refusedTTL []outcome
		if ttlOf(o) < 0 {
			refusedTTL = []outcome{same(false)}
		}
		if !exists {
			n := s.clone()
			n[o.Name] = rec{Type: o.Type, Owners: []int{ip}, Exp: te, RI: ri}
			return append([]outcome{{result{OK: true}, n}}, refusedTTL...)
		}
		// success that leaves the owners as they are (expiry possibly moved by the new TTL)
		again := func() outcome {
			n := s.clone()
			x := n[o.Name]
			x.Exp = merge(x.Exp, te)
			x.RI = mergeRI(x.RI, ri)
			n[o.Name] = x
			return outcome{result{OK: true}, n}
		}
		var outs []outcome
		switch {
		case r.Type == 1 && o.Type == 1:
			if has(r.Owners, ip) {
				outs = []outcome{again()}
			} else {
				n := s.clone()
				x := n[o.Name]
				x.Owners = append(x.Owners, ip)
				x.Exp = merge(x.Exp, te)
				x.RI = mergeRI(x.RI, ri)
				n[o.Name] = x
				outs = []outcome{{result{OK: true}, n}}
			}
		case r.Type == 0 && o.Type == 0 && has(r.Owners, ip):
			// the owner registers its own unique name again: not determined by the property
			outs = []outcome{same(false), again()}
		case r.Type == 0 && o.Type == 0:
			outs = []outcome{same(false)} // a unique name is held by one address only
		default:
			// type mismatch with an existing record: refused; an unchanged success is tolerated
			// only for a current owner
			outs = []outcome{same(false)}
			if has(r.Owners, ip) {
				outs = append(outs, again())
			}
		}
		if r.Conflict {
			// a conflict-marked name: the property does not say whether it can be registered
			// again. Refusal, or a fresh record for the new registrant, both keep the invariants -
			// except where a group registration meets a group: that succeeds as a join, and a group's
			// owners are all the addresses that registered it and have not released it (a fresh
			// record would drop the other members).
			outs = append(outs, same(false))
			if !(r.Type == 1 && o.Type == 1) {
				fresh := s.clone()
				fresh[o.Name] = rec{Type: o.Type, Owners: []int{ip}, Exp: te, RI: ri}
				outs = append(outs, outcome{result{OK: true}, fresh})
			}
		}
		return append(outs, refusedTTL...)
	case "query":
		if !exists || r.Conflict {
			return []outcome{{result{}, s}}
		}
		os := append([]int{}, r.Owners...)
		sort.Ints(os)
		parts := make([]string, len(os))
		for i, x := range os {
			parts[i] = fmt.Sprint(x)
		}
		return []outcome{{result{OK: true, Owners: strings.Join(parts, ","), Type: r.Type}, s}}
	case "rel":
		if !exists || !has(r.Owners, ip) {
			return []outcome{same(false)}
		}
		n := s.clone()
		x := n[o.Name]
		var keep []int
		for _, w := range x.Owners {
			if w != ip {
				keep = append(keep, w)
			}
		}
		if len(keep) == 0 {
			delete(n, o.Name)
		} else {
			x.Owners = keep
			n[o.Name] = x
		}
		return []outcome{{result{OK: true}, n}}
	case "refresh":
		if !exists || !has(r.Owners, ip) {
			return []outcome{same(false)}
		}
		// "RefreshName updates the TTL for a name registration": a successful refresh moves the
		// expiry to now + refresh interval. With an interval of +1h/+1000h the name is live again
		// whatever its expiry was; an interval of -1h (a device of this check) is only held to keep
		// a name dead that was dead already; with one of 1ns the expiry is open afterwards.
		n := s.clone()
		x := n[o.Name]
		switch {
		case x.RI > 0:
			x.Exp = live
		case x.RI < 0:
			x.Exp = merge(x.Exp, dead)
		default:
			x.Exp = open // depends on whose interval applies
		}
		n[o.Name] = x
		outs := []outcome{{result{OK: true}, n}}
		if r.Conflict {
			// the property does not say whether a name in conflict can still be refreshed (RFC 1002:
			// it can only be released): success or an unchanged refusal
			outs = append(outs, same(false))
		}
		return outs
	case "conflict":
		if !exists {
			return []outcome{same(false)}
		}
		n := s.clone()
		x := n[o.Name]
		x.Conflict = true
		n[o.Name] = x
		outs := []outcome{{result{OK: true}, n}}
		if r.Conflict {
			// marking a name that is marked already changes nothing: whether that counts as success
			// or is refused is not stated by the property
			outs = append(outs, same(false))
		}
		return outs
	}
	// clean: every name whose expiry lies in the past disappears, every name whose expiry lies ahead
	// stays; one outcome per choice for the names whose expiry is open
	outs := []outcome{{result{OK: true}, s.clone()}}
	var ks []int
	for k := range s {
		ks = append(ks, k)
	}
	sort.Ints(ks)
	for _, k := range ks {
		switch s[k].Exp {
		case dead:
			for _, o := range outs {
				delete(o.Next, k)
			}
		case open:
			m := len(outs)
			for i := 0; i < m; i++ {
				gone := outs[i].Next.clone()
				delete(gone, k)
				outs = append(outs, outcome{result{OK: true}, gone})
			}
		}
	}
	return outs
}

// visible is what a full scan with Query sees of a state.
func (s state) visible(scan []int) string {
	var sb strings.Builder
	for _, k := range scan {
		outs := apply(s, op{Kind: "query", Name: k})
		fmt.Fprintf(&sb, "%d=%v/%s/%d;", k, outs[0].Res.OK, outs[0].Res.Owners, outs[0].Res.Type)
	}
	return sb.String()
}
