//go:build verif

// Package c11: NBT session transport preserves message boundaries, never yields partial frames.
package c11

import (
	"bytes"
	"errors"
	"fmt"
	"io"
	"net"
	"sync"
	"sync/atomic"
	"testing"
	"time"

	"pgregory.net/rapid"

	"github.com/TheManticoreProject/Manticore/network/netbios/nbt"
	"github.com/TheManticoreProject/Manticore/network/smb/smb_v10/transport"

	"manticoreverif/vf"
)

const P = "C11"

// scriptConn is a net.Conn whose reads deliver a scripted byte stream in
// scripted segments and then fail (connection cut); writes are recorded until the
// connection is closed (Close keeps what was written; a Write after it fails, as on a socket).
// The write side may be used from a goroutine of the transport's own.
type scriptConn struct {
	segs   [][]byte // remaining read segments
	endErr error    // what Read returns after the last segment

	wmu     sync.Mutex
	written []byte
	writes  int
	closed  bool
}

func (c *scriptConn) Read(p []byte) (int, error) {
	for len(c.segs) > 0 && len(c.segs[0]) == 0 {
		c.segs = c.segs[1:]
	}
	if len(c.segs) == 0 {
		if c.endErr == nil {
			return 0, io.EOF
		}
		return 0, c.endErr
	}
	n := copy(p, c.segs[0])
	c.segs[0] = c.segs[0][n:]
	return n, nil
}
func (c *scriptConn) Write(p []byte) (int, error) {
	c.wmu.Lock()
	defer c.wmu.Unlock()
	if c.closed {
		return 0, net.ErrClosed
	}
	c.written = append(c.written, p...)
	c.writes++
	return len(p), nil
}
func (c *scriptConn) Close() error {
	c.wmu.Lock()
	defer c.wmu.Unlock()
	c.closed = true
	return nil
}

// sentThrough is what the connection holds of the Sends made through tr. Send returning does not
// have to mean that the frame is in the connection already (a transport may hand it to a writer of
// its own); the transport's Close is where it has to be: tr is closed first, then the bytes written
// up to that point are read.
func (c *scriptConn) sentThrough(tr *nbt.NBTTransport) []byte {
	tr.Close()
	c.wmu.Lock()
	defer c.wmu.Unlock()
	return append([]byte{}, c.written...)
}
func (c *scriptConn) LocalAddr() net.Addr              { return &net.TCPAddr{} }
func (c *scriptConn) RemoteAddr() net.Addr             { return &net.TCPAddr{} }
func (c *scriptConn) SetDeadline(time.Time) error      { return nil }
func (c *scriptConn) SetReadDeadline(time.Time) error  { return nil }
func (c *scriptConn) SetWriteDeadline(time.Time) error { return nil }

// refFrame: RFC 1002 4.3.1 session message: type 0x00, flags (bit 0 = length
// bit 16), 16 low length bits, payload.
func refFrame(p []byte) []byte {
	n := len(p)
	return append([]byte{0x00, byte(n>>16) & 1, byte(n >> 8), byte(n)}, p...)
}

const maxFrame = 0x1FFFF

func payload(n int, salt byte) []byte {
	b := make([]byte, n)
	for i := range b {
		b[i] = byte(i*31) ^ byte(i>>8) ^ salt
	}
	return b
}

// ---- Send -----------------------------------------------------------------------------------

type sendCase struct {
	Len  int  `json:"len"`
	Salt byte `json:"salt"`
}

func checkSend(c sendCase) []vf.Finding {
	conn := &scriptConn{}
	tr := nbt.NewNBTTransportFromConn(conn)
	p := payload(c.Len, c.Salt)
	// the refusal of a payload that cannot be framed is Send's own error; what is in the connection is
	// looked at once the transport has been closed
	_, err := tr.Send(append([]byte{}, p...))
	written := conn.sentThrough(tr)
	if c.Len > maxFrame {
		if err == nil {
			return []vf.Finding{vf.F("NBTTransport.Send", "oversize-payload-not-refused", "len %d: no error, wrote %d bytes starting %x", c.Len, len(written), written[:min(4, len(written))])}
		}
		if len(written) != 0 {
			return []vf.Finding{vf.F("NBTTransport.Send", "oversize-payload-partly-written", "len %d: error %v but %d bytes written", c.Len, err, len(written))}
		}
		return nil
	}
	if err != nil {
		return []vf.Finding{vf.F("NBTTransport.Send", "frameable-payload-refused", "len %d: %v", c.Len, err)}
	}
	want := refFrame(p)
	if !bytes.Equal(written, want) {
		kind := "frame-differs-from-rfc1002"
		if len(written) >= 4 && !bytes.Equal(written[:4], want[:4]) {
			kind = "header-differs-from-rfc1002"
		}
		return []vf.Finding{vf.F("NBTTransport.Send", kind, "len %d (%#x): header %x want %x, %d bytes written want %d", c.Len, c.Len, written[:min(4, len(written))], want[:4], len(written), len(want))}
	}
	return nil
}

func TestSendAllSmallLengths(t *testing.T) {
	s := vf.Begin(t, P, "send-frame-exhaustive")
	s.SetExhaustive()
	s.Note("payload lengths 0..2048 and every length within 3 of 0xFFFF, 0x10000, 0x1FFFF, 0x20000, plus 200000, 1<<18 .. 1<<25 and the lengths around 1<<18, 1<<20, 1<<24 plus 0x1FFFF")
	vf.Enum(s, func(yield func(sendCase)) {
		for n := 0; n <= 2048; n++ {
			yield(sendCase{n, byte(n)})
		}
		for _, c := range []int{0xFFFF, 0x10000, 0x1FFFF, 0x20000} {
			for d := -3; d <= 3; d++ {
				yield(sendCase{c + d, byte(d)})
			}
		}
		yield(sendCase{200000, 1})
		// far beyond the field: every power of two up to 32 MiB (a length whose bits 17.. are looked at
		// through a narrower type reads as small again), the first and the last length of the 128 KiB
		// window above some of them, and one below
		for sh := 18; sh <= 25; sh++ {
			yield(sendCase{1 << sh, byte(sh)})
		}
		for _, sh := range []int{18, 20, 24} {
			yield(sendCase{1<<sh + 1, 3})
			yield(sendCase{1<<sh + maxFrame, 4})
			yield(sendCase{1<<sh + maxFrame + 1, 5})
		}
		yield(sendCase{1<<24 - 1, 6})
	}, checkSend, func(c sendCase) bool { return c.Len >= 1 })
}

// every payload length the 17-bit field can express (thorough tier; a stride in quick)
func TestSendAllLengths(t *testing.T) {
	s := vf.Begin(t, P, "send-frame-all-lengths")
	step := vf.Size(257, 1)
	if step == 1 {
		s.SetExhaustive()
	}
	s.Note("payload lengths 0..131071 step %d", step)
	vf.Enum(s, func(yield func(sendCase)) {
		for n := 0; n <= maxFrame; n += step {
			yield(sendCase{n, byte(n >> 3)})
		}
	}, checkSend, func(c sendCase) bool { return c.Len >= 0x10000 })
}

// ---- Receive: segmentation and cuts -------------------------------------------------------------

type recvCase struct {
	Lens []int `json:"frame_lens"`
	Segs []int `json:"segment_sizes"` // sizes of successive read segments; the remainder forms the last one
	Cut  int   `json:"cut"`           // -1: stream complete; else the stream ends after Cut bytes
	Salt byte  `json:"salt"`
}

func (c recvCase) stream() (frames [][]byte, stream []byte) {
	for i, n := range c.Lens {
		p := payload(n, c.Salt+byte(i))
		frames = append(frames, p)
		stream = append(stream, refFrame(p)...)
	}
	return
}

// stillIntact: every message a Receive has returned is the caller's; a later Receive (or Send) on
// the same transport must not change it. held are the slices exactly as they were returned, kept
// until the end of the sequence and compared again with what was sent.
func stillIntact(held, want [][]byte) []vf.Finding {
	for i, got := range held {
		if !bytes.Equal(got, want[i]) {
			at := 0
			for at < len(got) && at < len(want[i]) && got[at] == want[i][at] {
				at++
			}
			return []vf.Finding{vf.F("NBTTransport.Receive", "earlier-message-changed-by-later-receive", "message %d of %d (%d bytes) was delivered intact but differs from byte %d on after the following calls on the same transport", i, len(held), len(want[i]), at)}
		}
	}
	return nil
}

func checkReceive(c recvCase) []vf.Finding {
	frames, stream := c.stream()
	total := len(stream)
	if c.Cut >= 0 && c.Cut < total {
		stream = stream[:c.Cut]
	}
	var segs [][]byte
	rest := stream
	for _, sz := range c.Segs {
		if sz > len(rest) {
			sz = len(rest)
		}
		segs = append(segs, rest[:sz])
		rest = rest[sz:]
	}
	segs = append(segs, rest)
	conn := &scriptConn{segs: segs, endErr: errors.New("connection reset by peer")}
	if c.Salt%2 == 0 {
		conn.endErr = nil // plain EOF
	}
	tr := nbt.NewNBTTransportFromConn(conn)
	// frames that are completely inside the delivered stream must come back exactly, in order
	off := 0
	var held [][]byte
	for i, want := range frames {
		end := off + 4 + len(want)
		got, err := tr.Receive()
		if end <= len(stream) {
			if err != nil {
				return []vf.Finding{vf.F("NBTTransport.Receive", "complete-frame-not-delivered", "frame %d (len %d, %#x) of %v segs %v: %v", i, len(want), len(want), c.Lens, c.Segs, err)}
			}
			if !bytes.Equal(got, want) {
				kind := "payload-differs"
				if len(got) != len(want) {
					kind = "payload-length-differs"
				}
				return []vf.Finding{vf.F("NBTTransport.Receive", kind, "frame %d: got %d bytes want %d (%#x); lens %v segs %v", i, len(got), len(want), len(want), c.Lens, c.Segs)}
			}
			held = append(held, got)
			off = end
			continue
		}
		// the stream ended inside (or before) this frame
		if err == nil {
			return []vf.Finding{vf.F("NBTTransport.Receive", "partial-frame-returned-without-error", "frame %d (len %d) cut at stream offset %d (frame starts at %d): got %d bytes, nil error", i, len(want), len(stream), off, len(got))}
		}
		if len(got) != 0 {
			return []vf.Finding{vf.F("NBTTransport.Receive", "partial-frame-returned-with-error", "frame %d cut at %d: got %d bytes and error %v", i, len(stream), len(got), err)}
		}
		return stillIntact(held, frames)
	}
	// everything delivered: one more Receive must report the end, not fabricate a message
	got, err := tr.Receive()
	if err == nil {
		return []vf.Finding{vf.F("NBTTransport.Receive", "message-fabricated-after-end-of-stream", "got %d bytes", len(got))}
	}
	return stillIntact(held, frames)
}

func recvNontrivial(c recvCase) bool {
	sum := 0
	for _, n := range c.Lens {
		sum += n
	}
	return sum >= 1 && (len(c.Segs) >= 1 || c.Cut > 0)
}

// every composition of a short stream into segments, and a cut after every byte offset
func TestReceiveExhaustiveSmall(t *testing.T) {
	s := vf.Begin(t, P, "receive-segmentation-cuts-exhaustive")
	s.SetExhaustive()
	s.Note("frames [3], [0,2], [1,0,1]: every composition of the stream into segments x every cut point; frames up to 300 bytes: a cut after every byte offset with 1- and 2-segment deliveries")
	vf.Enum(s, func(yield func(recvCase)) {
		for _, lens := range [][]int{{3}, {0, 2}, {1, 0, 1}, {0}, {}} {
			total := 0
			for _, n := range lens {
				total += 4 + n
			}
			// all compositions of total: bitmask over the total-1 gaps
			if total == 0 {
				yield(recvCase{Lens: lens, Cut: -1})
				continue
			}
			for mask := 0; mask < 1<<uint(total-1); mask++ {
				var segs []int
				run := 1
				for g := 0; g < total-1; g++ {
					if mask&(1<<uint(g)) != 0 {
						segs = append(segs, run)
						run = 1
					} else {
						run++
					}
				}
				yield(recvCase{Lens: lens, Segs: segs, Cut: -1, Salt: byte(mask)})
				if mask%37 == 0 { // cuts x a sample of compositions
					for cut := 0; cut < total; cut++ {
						yield(recvCase{Lens: lens, Segs: segs, Cut: cut, Salt: byte(mask + cut)})
					}
				}
			}
		}
		for _, n := range []int{0, 1, 2, 5, 127, 128, 255, 256, 300} {
			for cut := 0; cut <= 4+n; cut++ {
				yield(recvCase{Lens: []int{n}, Cut: cut, Salt: byte(cut)})
				yield(recvCase{Lens: []int{n}, Segs: []int{cut / 2}, Cut: cut, Salt: byte(cut + 1)})
				yield(recvCase{Lens: []int{7, n}, Segs: []int{3, 9}, Cut: 11 + cut, Salt: byte(cut)})
			}
		}
	}, checkReceive, recvNontrivial)
}

func genLen(t *rapid.T) int {
	switch rapid.IntRange(0, 9).Draw(t, "lenClass") {
	case 0:
		return rapid.SampledFrom([]int{0xFFFE, 0xFFFF, 0x10000, 0x10001, 0x1FFFE, 0x1FFFF}).Draw(t, "edge")
	case 1:
		return rapid.IntRange(0x10000, maxFrame).Draw(t, "big")
	case 2:
		return rapid.IntRange(0, 0xFFFF).Draw(t, "mid")
	default:
		return rapid.IntRange(0, 600).Draw(t, "small")
	}
}

func TestReceiveRandom(t *testing.T) {
	s := vf.Begin(t, P, "receive-random")
	vf.Rapid(s, vf.N(6000, 80000), func(t *rapid.T) recvCase {
		c := recvCase{Cut: -1, Salt: rapid.Byte().Draw(t, "salt")}
		total := 0
		for i, n := 0, rapid.IntRange(1, 5).Draw(t, "frames"); i < n; i++ {
			l := genLen(t)
			if total > 300000 {
				l %= 600
			}
			c.Lens = append(c.Lens, l)
			total += 4 + l
		}
		for i, n := 0, rapid.IntRange(0, 6).Draw(t, "nsegs"); i < n; i++ {
			switch rapid.IntRange(0, 2).Draw(t, "segClass") {
			case 0:
				c.Segs = append(c.Segs, rapid.IntRange(0, 5).Draw(t, "tiny"))
			default:
				c.Segs = append(c.Segs, rapid.IntRange(0, total).Draw(t, "seg"))
			}
		}
		if rapid.Bool().Draw(t, "cut") {
			c.Cut = rapid.IntRange(0, total).Draw(t, "cutAt")
		}
		return c
	}, checkReceive, func(c recvCase) bool {
		for _, n := range c.Lens {
			if n >= 0x10000 {
				return true
			}
		}
		return recvNontrivial(c) && len(c.Segs) >= 2
	})
}

// ---- Send -> Receive through the library on both ends --------------------------------------------

type e2eCase struct {
	Lens []int `json:"lens"`
	Salt byte  `json:"salt"`
}

func checkEndToEnd(c e2eCase) []vf.Finding {
	w := &scriptConn{}
	sender := nbt.NewNBTTransportFromConn(w)
	var sent [][]byte
	for i, n := range c.Lens {
		p := payload(n, c.Salt+byte(i))
		if _, err := sender.Send(append([]byte{}, p...)); err != nil {
			if n > maxFrame {
				continue
			}
			return []vf.Finding{vf.F("NBTTransport.Send", "frameable-payload-refused", "len %d: %v", n, err)}
		}
		if n > maxFrame {
			return []vf.Finding{vf.F("NBTTransport.Send", "oversize-payload-not-refused", "len %d", n)}
		}
		sent = append(sent, p)
	}
	// what the closed sender has put into the connection, delivered in 1000-byte segments
	var segs [][]byte
	for rest := w.sentThrough(sender); len(rest) > 0; {
		k := min(1000, len(rest))
		segs = append(segs, rest[:k])
		rest = rest[k:]
	}
	r := nbt.NewNBTTransportFromConn(&scriptConn{segs: segs})
	var held [][]byte
	for i, want := range sent {
		got, err := r.Receive()
		if err != nil || !bytes.Equal(got, want) {
			return []vf.Finding{vf.F("NBTTransport", "send-receive-not-identity", "message %d of %v: sent %d bytes, received %d (err %v)", i, c.Lens, len(want), len(got), err)}
		}
		held = append(held, got)
	}
	if got, err := r.Receive(); err == nil {
		return []vf.Finding{vf.F("NBTTransport.Receive", "message-fabricated-after-end-of-stream", "got %d bytes", len(got))}
	}
	return stillIntact(held, sent)
}

func TestEndToEnd(t *testing.T) {
	s := vf.Begin(t, P, "send-receive-identity")
	vf.Rapid(s, vf.N(3000, 40000), func(t *rapid.T) e2eCase {
		c := e2eCase{Salt: rapid.Byte().Draw(t, "salt")}
		for i, n := 0, rapid.IntRange(1, 4).Draw(t, "n"); i < n; i++ {
			l := genLen(t)
			if rapid.IntRange(0, 19).Draw(t, "over") == 0 {
				l = maxFrame + 1 + rapid.IntRange(0, 70000).Draw(t, "excess")
			}
			c.Lens = append(c.Lens, l)
		}
		return c
	}, checkEndToEnd, func(c e2eCase) bool { return len(c.Lens) >= 2 })
}

// ---- the same over a real loopback TCP connection (cross-check that the hook changes nothing) ----

func TestLoopbackTCP(t *testing.T) {
	s := vf.Begin(t, P, "loopback-tcp")
	s.SetExhaustive()
	type lc struct {
		Len int `json:"len"`
	}
	vf.Enum(s, func(yield func(lc)) {
		for _, n := range []int{0, 1, 1000, 0xFFFF, 0x10000, 70000, maxFrame} {
			yield(lc{n})
		}
	}, func(c lc) []vf.Finding {
		ln, err := net.Listen("tcp", "127.0.0.1:0")
		if err != nil {
			return []vf.Finding{vf.F("harness", "cannot-listen", "%v", err)}
		}
		defer ln.Close()
		p := payload(c.Len, 9)
		type res struct {
			got []byte
			err error
		}
		ch := make(chan res, 1)
		go func() {
			conn, err := ln.Accept()
			if err != nil {
				ch <- res{nil, err}
				return
			}
			srv := nbt.NewNBTTransportFromConn(conn)
			// closed through the transport (the echo may still be with it when Send returns), then the socket
			defer conn.Close()
			defer srv.Close()
			got, err := srv.Receive()
			if err == nil {
				_, err = srv.Send(got) // echo
			}
			ch <- res{got, err}
		}()
		cl := nbt.NewNBTTransport()
		addr := ln.Addr().(*net.TCPAddr)
		if err := cl.Connect(addr.IP, addr.Port); err != nil {
			return []vf.Finding{vf.F("harness", "cannot-connect", "%v", err)}
		}
		defer cl.Close()
		if _, err := cl.Send(append([]byte{}, p...)); err != nil {
			return []vf.Finding{vf.F("NBTTransport.Send", "frameable-payload-refused", "tcp len %d: %v", c.Len, err)}
		}
		r := <-ch
		if r.err != nil || !bytes.Equal(r.got, p) {
			return []vf.Finding{vf.F("NBTTransport", "send-receive-not-identity", "tcp: sent %d bytes, peer received %d (err %v)", len(p), len(r.got), r.err)}
		}
		echo, err := cl.Receive()
		if err != nil || !bytes.Equal(echo, p) {
			return []vf.Finding{vf.F("NBTTransport", "send-receive-not-identity", "tcp echo: sent %d bytes, got back %d (err %v)", len(p), len(echo), err)}
		}
		return nil
	}, func(c lc) bool { return c.Len > 0 })
}

// ---- several goroutines sending through one transport ----------------------------------------------------------
//
// The property's quantifier ranges over schedules as well as inputs. net.Conn allows concurrent Write calls and
// serialises each call as a whole, so a Send that puts a frame on the wire with one Write keeps frames intact
// when several goroutines share a transport; a Send that writes header and payload separately lets them
// interleave (H1 H2 D1 D2). Every goroutine sends payloads that carry its own tag in every byte, with lengths of
// its own; the peer must receive exactly the multiset of payloads that were sent, each one homogeneous.

type concCase struct {
	Senders int   `json:"senders"`
	Lens    []int `json:"payload_lengths"` // per sender and round: Lens[(s*Rounds+r) % len(Lens)]
	Rounds  int   `json:"rounds"`
	Pipe    bool  `json:"net_pipe"` // net.Pipe instead of loopback TCP
}

func checkConcurrentSenders(c concCase) []vf.Finding {
	var a, b net.Conn
	if c.Pipe {
		a, b = net.Pipe()
	} else {
		ln, err := net.Listen("tcp", "127.0.0.1:0")
		if err != nil {
			return []vf.Finding{vf.F("harness", "cannot-listen", "%v", err)}
		}
		defer ln.Close()
		acc := make(chan net.Conn, 1)
		go func() {
			conn, _ := ln.Accept()
			acc <- conn
		}()
		var err2 error
		a, err2 = net.Dial("tcp", ln.Addr().String())
		if err2 != nil {
			return []vf.Finding{vf.F("harness", "cannot-connect", "%v", err2)}
		}
		b = <-acc
		if b == nil {
			a.Close()
			return []vf.Finding{vf.F("harness", "cannot-accept", "")}
		}
	}
	defer a.Close()
	defer b.Close()
	tx, rx := nbt.NewNBTTransportFromConn(a), nbt.NewNBTTransportFromConn(b)
	lenOf := func(s, r int) int { return c.Lens[(s*c.Rounds+r)%len(c.Lens)] }
	want := map[string]int{} // "tag/len" -> how many
	total := 0
	for s := 0; s < c.Senders; s++ {
		for r := 0; r < c.Rounds; r++ {
			want[fmt.Sprintf("%d/%d", s+1, lenOf(s, r))]++
			total++
		}
	}
	type rcv struct {
		msgs [][]byte
		err  error
	}
	done := make(chan rcv, 1)
	go func() {
		var out rcv
		for i := 0; i < total; i++ {
			b.SetReadDeadline(time.Now().Add(10 * time.Second))
			m, err := rx.Receive()
			if err != nil {
				out.err = err
				break
			}
			out.msgs = append(out.msgs, m)
		}
		done <- out
	}()
	start := make(chan struct{})
	// closed: the harness has started to close the connections; a Send that fails after that fails because
	// of the close, not by itself
	var closed atomic.Bool
	errs := make(chan error, c.Senders)
	for s := 0; s < c.Senders; s++ {
		go func(s int) {
			<-start
			for r := 0; r < c.Rounds; r++ {
				if _, err := tx.Send(bytes.Repeat([]byte{byte(s + 1)}, lenOf(s, r))); err != nil {
					if closed.Load() {
						err = nil
					}
					errs <- err
					return
				}
			}
			errs <- nil
		}(s)
	}
	close(start)
	// Normally the receiver ends first (all messages, an error, or its read deadline); closing the connections
	// then releases senders that are still blocked because the peer stopped reading a stream it cannot frame.
	// When every sender has returned and one of them because its Send failed, nothing more will be written and
	// the receiver would only sit out its read deadline: the sending side is closed at once (what was written
	// before still arrives, then the receiver sees the end of the stream).
	var got rcv
	var sendErr error // the first error a Send returned by itself
	returned, failed := 0, 0
	note := func(err error) {
		returned++
		if err != nil {
			failed++
			if sendErr == nil {
				sendErr = err
			}
		}
	}
	for received := false; !received; {
		select {
		case got = <-done:
			received = true
		case err := <-errs:
			note(err)
			if returned == c.Senders && failed > 0 {
				a.Close()
				got = <-done
				received = true
			}
		}
	}
	closed.Store(true)
	a.Close()
	b.Close()
	for returned < c.Senders {
		note(<-errs)
	}
	var fs []vf.Finding
	// a Send that fails is reported as that, first; the messages that are then missing are its consequence and
	// not a sign of interleaved frames (the ones that did arrive are still examined)
	if sendErr != nil {
		fs = append(fs, vf.F("NBTTransport.Send", "concurrent-send-failed", "%d of %d concurrent senders had a Send of a frameable payload fail, first: %v", failed, c.Senders, sendErr))
	}
	for i, m := range got.msgs {
		if len(m) == 0 {
			want["0/0"]-- // not generated; shows up below as unexpected
			continue
		}
		tag := m[0]
		homogeneous := true
		for _, x := range m {
			if x != tag {
				homogeneous = false
				break
			}
		}
		if !homogeneous {
			fs = append(fs, vf.F("NBTTransport", "frames-of-concurrent-senders-interleaved", "message %d of %d (%d bytes) mixes the bytes of several senders", i, total, len(m)))
			return fs
		}
		k := fmt.Sprintf("%d/%d", tag, len(m))
		if want[k] == 0 {
			fs = append(fs, vf.F("NBTTransport", "frames-of-concurrent-senders-interleaved", "message %d: %d bytes of sender %d were received, no such payload was sent", i, len(m), tag))
			return fs
		}
		want[k]--
	}
	if sendErr == nil && (got.err != nil || len(got.msgs) != total) {
		fs = append(fs, vf.F("NBTTransport", "frames-of-concurrent-senders-interleaved", "%d of %d messages received intact, then: %v", len(got.msgs), total, got.err))
	}
	return fs
}

func TestConcurrentSenders(t *testing.T) {
	s := vf.Begin(t, P, "concurrent-senders")
	vf.Rapid(s, vf.N(60, 600), func(t *rapid.T) concCase {
		c := concCase{Senders: rapid.IntRange(2, 6).Draw(t, "senders"), Rounds: rapid.IntRange(3, 30).Draw(t, "rounds"), Pipe: rapid.Bool().Draw(t, "pipe")}
		n := rapid.IntRange(1, 8).Draw(t, "distinctLens")
		for i := 0; i < n; i++ {
			switch rapid.IntRange(0, 3).Draw(t, "lenClass") {
			case 0:
				c.Lens = append(c.Lens, rapid.IntRange(1, 64).Draw(t, "small"))
			case 1:
				c.Lens = append(c.Lens, rapid.IntRange(4000, 9000).Draw(t, "medium"))
			case 2:
				c.Lens = append(c.Lens, rapid.IntRange(60000, 70000).Draw(t, "large"))
			default:
				c.Lens = append(c.Lens, rapid.IntRange(1, 20000).Draw(t, "any"))
			}
		}
		return c
	}, checkConcurrentSenders, func(c concCase) bool { return c.Senders >= 2 && c.Rounds >= 3 })
}

// ---- packets that are not session messages ---------------------------------------------------------
//
// RFC 1002 4.3 knows five more session packet types (0x81 request, 0x82 positive, 0x83 negative,
// 0x84 retarget response, 0x85 keep-alive). A peer may put them between session messages. Whether
// Receive refuses such a packet with an error or skips it is the transport's choice; what it must not
// do is hand the caller a payload that the peer did not send as a message: the packet's own bytes,
// an empty message for a keep-alive, or whatever follows when the packet was not consumed properly.
// After a Receive that returned an error nothing further is judged (where the stream stands then is
// not the property's business).

type ctrlPkt struct {
	Before int  `json:"before_frame"` // stands before message frame Before; len(frame_lens) = after the last
	Type   byte `json:"type"`
	Len    int  `json:"payload_len"`
}

type mixedCase struct {
	Lens []int     `json:"frame_lens"`
	Ctrl []ctrlPkt `json:"other_packets"` // in stream order
	Segs []int     `json:"segment_sizes"`
	Salt byte      `json:"salt"`
}

// ctrlNatural: the payload RFC 1002 gives each packet type (4.3.2 .. 4.3.6).
var ctrlNatural = map[byte]int{0x81: 68, 0x82: 0, 0x83: 1, 0x84: 6, 0x85: 0}

type streamItem struct {
	msg     bool
	payload []byte
	typ     byte
}

func (c mixedCase) items() (items []streamItem, stream []byte) {
	k := 0
	emitCtrl := func(upto int) {
		for ; k < len(c.Ctrl) && c.Ctrl[k].Before <= upto; k++ {
			p := payload(c.Ctrl[k].Len, c.Salt+0x80+byte(k))
			items = append(items, streamItem{false, p, c.Ctrl[k].Type})
			n := len(p)
			stream = append(stream, c.Ctrl[k].Type, byte(n>>16)&1, byte(n>>8), byte(n))
			stream = append(stream, p...)
		}
	}
	for i, n := range c.Lens {
		emitCtrl(i)
		p := payload(n, c.Salt+byte(i))
		items = append(items, streamItem{true, p, 0})
		stream = append(stream, refFrame(p)...)
	}
	emitCtrl(len(c.Lens))
	return
}

func checkMixed(c mixedCase) []vf.Finding {
	items, stream := c.items()
	var segs [][]byte
	rest := stream
	for _, sz := range c.Segs {
		sz = min(sz, len(rest))
		segs = append(segs, rest[:sz])
		rest = rest[sz:]
	}
	segs = append(segs, rest)
	tr := nbt.NewNBTTransportFromConn(&scriptConn{segs: segs})
	var held, want [][]byte
	// one Receive per item and one more: a transport that skips needs fewer calls, none needs more
	for i, calls := 0, 0; calls <= len(items); calls++ {
		// the next message, and whether other packets stand before it
		m := i
		for m < len(items) && !items[m].msg {
			m++
		}
		got, err := tr.Receive()
		if err != nil {
			if m == i && m < len(items) {
				return []vf.Finding{vf.F("NBTTransport.Receive", "complete-frame-not-delivered", "item %d of the stream, a session message of %d bytes with nothing but session messages delivered before it: %v", i, len(items[m].payload), err)}
			}
			// refused a packet that is not a message, or the end of the stream: nothing more to judge
			return stillIntact(held, want)
		}
		what := "at the end of the stream"
		if m > i {
			what = fmt.Sprintf("after a packet of type %#x with %d payload bytes", items[i].typ, len(items[i].payload))
		}
		if m == len(items) {
			kind := "message-fabricated-after-end-of-stream"
			if m > i {
				kind = "non-message-packet-delivered-as-message"
			}
			return []vf.Finding{vf.F("NBTTransport.Receive", kind, "got a message of %d bytes and no error %s; every message the peer sent has been delivered already", len(got), what)}
		}
		if !bytes.Equal(got, items[m].payload) {
			kind := "payload-differs"
			if m > i {
				kind = "non-message-packet-delivered-as-message"
			}
			return []vf.Finding{vf.F("NBTTransport.Receive", kind, "got a message of %d bytes %.16x and no error %s; the next message the peer sent has %d bytes", len(got), got, what, len(items[m].payload))}
		}
		held, want = append(held, got), append(want, items[m].payload)
		i = m + 1
	}
	return []vf.Finding{vf.F("NBTTransport.Receive", "message-fabricated-after-end-of-stream", "%d calls on a stream of %d packets all returned without error", len(items)+1, len(items))}
}

func TestReceiveOtherPacketTypes(t *testing.T) {
	s := vf.Begin(t, P, "receive-non-message-packets")
	vf.Rapid(s, vf.N(4000, 50000), func(t *rapid.T) mixedCase {
		c := mixedCase{Salt: rapid.Byte().Draw(t, "salt")}
		total := 0
		for i, n := 0, rapid.IntRange(0, 4).Draw(t, "frames"); i < n; i++ {
			l := rapid.IntRange(0, 40).Draw(t, "len")
			if rapid.IntRange(0, 7).Draw(t, "lenClass") == 0 {
				l = genLen(t)
			}
			c.Lens = append(c.Lens, l)
			total += 4 + l
		}
		at := 0
		for i, n := 0, rapid.IntRange(1, 4).Draw(t, "others"); i < n; i++ {
			at = rapid.IntRange(at, len(c.Lens)).Draw(t, "before")
			k := ctrlPkt{Before: at, Type: byte(rapid.IntRange(0x81, 0x85).Draw(t, "type"))}
			k.Len = ctrlNatural[k.Type]
			// one in ten: a type RFC 1002 does not define, with a few bytes announced and carried. (The
			// defined types always come with the payload the RFC gives them: what a transport makes of a
			// keep-alive that announces a payload is not judged.)
			if rapid.IntRange(0, 9).Draw(t, "otherClass") == 0 {
				k.Type = byte(rapid.IntRange(1, 255).Draw(t, "anyType"))
				if n, defined := ctrlNatural[k.Type]; defined {
					k.Len = n
				} else {
					k.Len = rapid.IntRange(0, 8).Draw(t, "anyLen")
				}
			}
			c.Ctrl = append(c.Ctrl, k)
			total += 4 + k.Len
		}
		for i, n := 0, rapid.IntRange(0, 4).Draw(t, "nsegs"); i < n; i++ {
			c.Segs = append(c.Segs, rapid.IntRange(0, min(total, 100)).Draw(t, "seg"))
		}
		return c
	}, func(c mixedCase) []vf.Finding {
		for _, k := range c.Ctrl {
			if _, defined := ctrlNatural[k.Type]; defined {
				s.Class(fmt.Sprintf("packet-type-%#x", k.Type))
			} else {
				s.Class("packet-type-undefined")
			}
			if k.Before < len(c.Lens) {
				s.Class("other-packet-before-a-message")
			}
		}
		return checkMixed(c)
	}, func(c mixedCase) bool { return len(c.Lens) >= 1 })
}

// ---- full duplex: a Send while a Receive is waiting, and the other way round ---------------------
//
// A session is used in both directions at once (SMB: a client waits for an oplock break or a reply
// while it sends the next request; the quantifier ranges over schedules). A Receive that is waiting
// for the peer must not keep a Send on the same transport from putting its frame on the wire, nor a
// Send that is waiting for the peer to read keep a Receive from delivering what has arrived.

// gateConn reports every Read and Write call before handing it to the connection it wraps.
type gateConn struct {
	net.Conn
	reading, writing chan struct{}
}

func (c *gateConn) Read(p []byte) (int, error) {
	select {
	case c.reading <- struct{}{}:
	default:
	}
	return c.Conn.Read(p)
}

func (c *gateConn) Write(p []byte) (int, error) {
	select {
	case c.writing <- struct{}{}:
	default:
	}
	return c.Conn.Write(p)
}

type duplexCase struct {
	Pipe        bool  `json:"net_pipe"` // net.Pipe instead of loopback TCP
	Out         []int `json:"sent_lengths"`
	In          []int `json:"received_lengths"` // one per round, cyclically
	SendPending bool  `json:"receive_issued_while_send_waits"`
}

// stallLimit: how long a call that needs microseconds may take before it counts as blocked.
const stallLimit = 20 * time.Second

func connPair(pipe bool) (a, b net.Conn, fs []vf.Finding) {
	if pipe {
		a, b = net.Pipe()
		return
	}
	ln, err := net.Listen("tcp", "127.0.0.1:0")
	if err != nil {
		return nil, nil, []vf.Finding{vf.F("harness", "cannot-listen", "%v", err)}
	}
	defer ln.Close()
	acc := make(chan net.Conn, 1)
	go func() {
		conn, _ := ln.Accept()
		acc <- conn
	}()
	a, err = net.Dial("tcp", ln.Addr().String())
	if err != nil {
		return nil, nil, []vf.Finding{vf.F("harness", "cannot-connect", "%v", err)}
	}
	if b = <-acc; b == nil {
		a.Close()
		return nil, nil, []vf.Finding{vf.F("harness", "cannot-accept", "")}
	}
	return
}

// scheduleWait: how long the harness waits to see the first call enter the connection before it issues
// the second one. Not a verdict: a transport that reads or writes from a goroutine of its own is never
// seen, and the case then runs with whatever overlap the scheduler gives it (class *-not-seen-*).
const scheduleWait = 300 * time.Millisecond

func checkDuplex(s *vf.Sub, c duplexCase) []vf.Finding {
	observe := func(ch chan struct{}, class string) {
		select {
		case <-ch:
		case <-time.After(scheduleWait):
			s.Class(class)
		}
	}
	a, b, fs := connPair(c.Pipe)
	if fs != nil {
		return fs
	}
	defer a.Close()
	defer b.Close()
	ga := &gateConn{Conn: a, reading: make(chan struct{}, 1), writing: make(chan struct{}, 1)}
	tr := nbt.NewNBTTransportFromConn(ga)
	type res struct {
		got []byte
		err error
	}
	for round, n := range c.Out {
		out, in := payload(n, byte(round)), payload(c.In[round%len(c.In)], byte(round)+0x40)
		recvd, sent := make(chan res, 1), make(chan error, 1)
		receive := func() {
			got, err := tr.Receive()
			recvd <- res{got, err}
		}
		send := func() {
			_, err := tr.Send(append([]byte{}, out...))
			sent <- err
		}
		drain := func(ch chan struct{}) {
			select {
			case <-ch:
			default:
			}
		}
		if !c.SendPending || !c.Pipe {
			// the transport waits in Receive (the peer has sent nothing yet) ...
			drain(ga.reading)
			go receive()
			observe(ga.reading, "receive-not-seen-reading")
			// ... a Send is issued on it: the peer must get the frame
			go send()
			frame := make([]byte, 4+len(out))
			b.SetReadDeadline(time.Now().Add(stallLimit))
			if _, err := io.ReadFull(b, frame); err != nil {
				return []vf.Finding{vf.F("NBTTransport.Send", "send-blocked-by-pending-receive", "round %d: a Receive was waiting for the peer when Send(%d bytes) was called on the same transport; the peer did not get the frame within %v: %v", round, len(out), stallLimit, err)}
			}
			if !bytes.Equal(frame, refFrame(out)) {
				return []vf.Finding{vf.F("NBTTransport.Send", "frame-differs-from-rfc1002", "round %d: sent during a pending Receive: header %x want %x", round, frame[:4], refFrame(out)[:4])}
			}
			select {
			case err := <-sent:
				if err != nil {
					return []vf.Finding{vf.F("NBTTransport.Send", "frameable-payload-refused", "round %d, len %d, during a pending Receive: %v", round, len(out), err)}
				}
			case <-time.After(stallLimit):
				return []vf.Finding{vf.F("NBTTransport.Send", "send-blocked-by-pending-receive", "round %d: the peer has read the frame of %d bytes, Send has not returned after %v", round, len(out), stallLimit)}
			}
			// the peer answers: the Receive that was waiting all along delivers it
			b.SetWriteDeadline(time.Now().Add(stallLimit))
			if _, err := b.Write(refFrame(in)); err != nil {
				return []vf.Finding{vf.F("harness", "peer-cannot-write", "%v", err)}
			}
		} else {
			// net.Pipe: a Send waits until the peer reads. While it waits, a message from the peer
			// arrives and a Receive is issued for it: it must be delivered before the peer reads.
			drain(ga.writing)
			go send()
			observe(ga.writing, "send-not-seen-writing")
			go receive()
			b.SetWriteDeadline(time.Now().Add(stallLimit))
			if _, err := b.Write(refFrame(in)); err != nil {
				return []vf.Finding{vf.F("NBTTransport.Receive", "receive-blocked-by-pending-send", "round %d: a Send was waiting for the peer to read when a message of %d bytes arrived and Receive was called on the same transport; the message was not taken within %v: %v", round, len(in), stallLimit, err)}
			}
		}
		var r res
		select {
		case r = <-recvd:
		case <-time.After(stallLimit):
			return []vf.Finding{vf.F("NBTTransport.Receive", "receive-blocked-by-pending-send", "round %d: the peer has written its message of %d bytes, Receive has not returned after %v", round, len(in), stallLimit)}
		}
		if r.err != nil || !bytes.Equal(r.got, in) {
			return []vf.Finding{vf.F("NBTTransport.Receive", "payload-differs", "round %d: peer sent %d bytes, got %d (err %v)", round, len(in), len(r.got), r.err)}
		}
		if c.SendPending && c.Pipe {
			// now the peer reads what the waiting Send has been trying to write
			frame := make([]byte, 4+len(out))
			b.SetReadDeadline(time.Now().Add(stallLimit))
			if _, err := io.ReadFull(b, frame); err != nil || !bytes.Equal(frame, refFrame(out)) {
				return []vf.Finding{vf.F("NBTTransport.Send", "frame-differs-from-rfc1002", "round %d: frame of a Send that waited through a Receive: %v, header %x want %x", round, err, frame[:4], refFrame(out)[:4])}
			}
			select {
			case err := <-sent:
				if err != nil {
					return []vf.Finding{vf.F("NBTTransport.Send", "frameable-payload-refused", "round %d, len %d: %v", round, len(out), err)}
				}
			case <-time.After(stallLimit):
				return []vf.Finding{vf.F("NBTTransport.Send", "send-blocked-by-pending-receive", "round %d: the peer has read the frame, Send has not returned after %v", round, stallLimit)}
			}
		}
	}
	return nil
}

func TestFullDuplex(t *testing.T) {
	s := vf.Begin(t, P, "full-duplex")
	vf.Rapid(s, vf.N(150, 1500), func(t *rapid.T) duplexCase {
		c := duplexCase{Pipe: rapid.Bool().Draw(t, "pipe"), SendPending: rapid.Bool().Draw(t, "sendPending")}
		lens := func(label string, n int) (out []int) {
			for i := 0; i < n; i++ {
				l := rapid.IntRange(0, 300).Draw(t, label)
				if rapid.IntRange(0, 5).Draw(t, "lenClass") == 0 {
					l = rapid.SampledFrom([]int{0xFFFF, 0x10000, 70000, maxFrame}).Draw(t, "bigLen")
				}
				out = append(out, l)
			}
			return
		}
		c.Out = lens("out", rapid.IntRange(1, 6).Draw(t, "rounds"))
		c.In = lens("in", rapid.IntRange(1, 3).Draw(t, "ins"))
		return c
	}, func(c duplexCase) []vf.Finding {
		if c.SendPending && c.Pipe {
			s.Class("receive-while-send-waits")
		} else {
			s.Class("send-while-receive-waits")
		}
		return checkDuplex(s, c)
	}, func(c duplexCase) bool { return len(c.Out) >= 1 })
}

// ---- two transports in one process, their streams arriving interleaved -----------------------------
//
// A process holds several sessions (one per server, or per client for a listener). The segments of
// two streams arrive in an arbitrary interleaving; what one transport has read so far - half a
// header, part of a payload - must be its own. Each transport runs its Receive calls on a goroutine
// of its own; the harness hands out the segments one at a time, the next one only when the transport
// that got the last one has digested it (it asks for more, or has returned its last message).

type stepConn struct {
	scriptConn
	asks chan struct{} // one token per Read call that has to wait for a segment
	feed chan []byte   // closed = end of stream
	eof  bool
}

func (c *stepConn) Read(p []byte) (int, error) {
	for len(c.segs) > 0 && len(c.segs[0]) == 0 {
		c.segs = c.segs[1:]
	}
	if len(c.segs) == 0 {
		if c.eof {
			return 0, io.EOF
		}
		c.asks <- struct{}{}
		seg, ok := <-c.feed
		if !ok {
			c.eof = true
			return 0, io.EOF
		}
		c.segs = append(c.segs, seg)
	}
	return c.scriptConn.Read(p)
}

type twoCase struct {
	Lens  [2][]int `json:"frame_lens"`
	Segs  [2][]int `json:"segment_sizes"` // the remainder of each stream forms its last segment
	Order []int    `json:"order"`         // which stream the next segment is taken from (cyclically; a finished stream yields to the other)
	Salt  byte     `json:"salt"`
}

func checkTwoTransports(c twoCase) []vf.Finding {
	type side struct {
		conn   *stepConn
		frames [][]byte
		segs   [][]byte
		got    [][]byte
		err    error
		done   chan struct{}
		asking bool
		ended  bool
		closed bool
	}
	var sides [2]*side
	for x := 0; x < 2; x++ {
		sd := &side{conn: &stepConn{asks: make(chan struct{}), feed: make(chan []byte)}, done: make(chan struct{})}
		var stream []byte
		for i, n := range c.Lens[x] {
			p := payload(n, c.Salt+byte(16*x+i))
			sd.frames = append(sd.frames, p)
			stream = append(stream, refFrame(p)...)
		}
		rest := stream
		for _, sz := range c.Segs[x] {
			sz = min(max(sz, 1), len(rest))
			if sz == 0 {
				break
			}
			sd.segs = append(sd.segs, rest[:sz])
			rest = rest[sz:]
		}
		if len(rest) > 0 {
			sd.segs = append(sd.segs, rest)
		}
		sides[x] = sd
		tr := nbt.NewNBTTransportFromConn(sd.conn)
		go func() {
			defer close(sd.done)
			for range sd.frames {
				m, err := tr.Receive()
				if err != nil {
					sd.err = err
					return
				}
				sd.got = append(sd.got, m)
			}
		}()
	}
	// wait until side x asks for a segment or has ended
	settle := func(sd *side) bool {
		if sd.asking || sd.ended {
			return true
		}
		select {
		case <-sd.conn.asks:
			sd.asking = true
		case <-sd.done:
			sd.ended = true
		case <-time.After(stallLimit):
			return false
		}
		return true
	}
	endStream := func(sd *side) {
		if !sd.closed {
			sd.closed = true
			close(sd.conn.feed)
		}
	}
	stuck := func(x int) []vf.Finding {
		for _, sd := range sides {
			endStream(sd)
		}
		return []vf.Finding{vf.F("NBTTransport.Receive", "receive-stalled", "transport %d neither asked for more bytes nor returned within %v", x, stallLimit)}
	}
	for k := 0; len(sides[0].segs)+len(sides[1].segs) > 0; k++ {
		x := 0
		if len(c.Order) > 0 {
			x = c.Order[k%len(c.Order)] & 1
		}
		if len(sides[x].segs) == 0 {
			x = 1 - x
		}
		sd := sides[x]
		if !settle(sd) {
			return stuck(x)
		}
		if sd.ended {
			sd.segs = nil // it returned early (an error, or messages shorter than sent): judged below
			continue
		}
		sd.conn.feed <- sd.segs[0]
		sd.segs, sd.asking = sd.segs[1:], false
		if !settle(sd) {
			return stuck(x)
		}
	}
	for x, sd := range sides {
		if !settle(sd) {
			return stuck(x)
		}
		endStream(sd)
		if sd.asking {
			// wants more than its stream holds: it gets the end of the stream and returns
			sd.asking = false
			select {
			case <-sd.done:
			case <-time.After(stallLimit):
				return stuck(x)
			}
		}
	}
	var fs []vf.Finding
	for x, sd := range sides {
		for i, want := range sd.frames {
			if i >= len(sd.got) {
				fs = append(fs, vf.F("NBTTransport.Receive", "complete-frame-not-delivered", "transport %d of two receiving at the same time: message %d (%d bytes) not delivered: %v", x, i, len(want), sd.err))
				break
			}
			if !bytes.Equal(sd.got[i], want) {
				kind := "payload-differs"
				if len(sd.got[i]) != len(want) {
					kind = "payload-length-differs"
				}
				fs = append(fs, vf.F("NBTTransport.Receive", kind, "transport %d of two receiving at the same time: message %d: got %d bytes want %d (%#x)", x, i, len(sd.got[i]), len(want), len(want)))
				break
			}
		}
	}
	return fs
}

func TestTwoTransports(t *testing.T) {
	s := vf.Begin(t, P, "receive-two-transports-interleaved")
	vf.Rapid(s, vf.N(2500, 30000), func(t *rapid.T) twoCase {
		c := twoCase{Salt: rapid.Byte().Draw(t, "salt")}
		for x := 0; x < 2; x++ {
			total := 0
			for i, n := 0, rapid.IntRange(1, 3).Draw(t, "frames"); i < n; i++ {
				l := genLen(t)
				c.Lens[x] = append(c.Lens[x], l)
				total += 4 + l
			}
			for i, n := 0, rapid.IntRange(0, 5).Draw(t, "nsegs"); i < n; i++ {
				switch rapid.IntRange(0, 2).Draw(t, "segClass") {
				case 0, 1: // inside a header, or a few bytes
					c.Segs[x] = append(c.Segs[x], rapid.IntRange(1, 5).Draw(t, "tiny"))
				default:
					c.Segs[x] = append(c.Segs[x], rapid.IntRange(1, total).Draw(t, "seg"))
				}
			}
		}
		c.Order = rapid.SliceOfN(rapid.IntRange(0, 1), 1, 8).Draw(t, "order")
		return c
	}, func(c twoCase) []vf.Finding {
		for x := 0; x < 2; x++ {
			if len(c.Segs[x]) > 0 && c.Segs[x][0] < 4 {
				s.Class("first-header-split")
			}
		}
		return checkTwoTransports(c)
	}, func(c twoCase) bool { return len(c.Segs[0])+len(c.Segs[1]) >= 1 })
}

// ---- Close right after Send, with data still in flight --------------------------------------------------------
//
// Send returning success means the payload is on its way; closing the transport afterwards must not take it
// back. The client dials with the library's own Connect, sends several maximal frames and closes at once, while
// the peer reads slowly (the pauses only shape the schedule: they keep data in flight at the moment of Close;
// no verdict depends on them). The peer must receive every frame intact and then the end of the stream.

type closeCase struct {
	Frames int `json:"frames"`
	Len    int `json:"payload_len"`
	PaceMs int `json:"peer_pause_ms_per_frame"`
}

func checkSendThenClose(c closeCase) []vf.Finding {
	ln, err := net.Listen("tcp", "127.0.0.1:0")
	if err != nil {
		return []vf.Finding{vf.F("harness", "cannot-listen", "%v", err)}
	}
	defer ln.Close()
	type res struct {
		got  int
		bad  string
		last error
	}
	ch := make(chan res, 1)
	go func() {
		conn, err := ln.Accept()
		if err != nil {
			ch <- res{last: err}
			return
		}
		defer conn.Close()
		srv := nbt.NewNBTTransportFromConn(conn)
		var r res
		for {
			time.Sleep(time.Duration(c.PaceMs) * time.Millisecond)
			conn.SetReadDeadline(time.Now().Add(20 * time.Second))
			m, err := srv.Receive()
			if err != nil {
				r.last = err
				break
			}
			if !bytes.Equal(m, payload(c.Len, byte(r.got+1))) && r.bad == "" {
				r.bad = fmt.Sprintf("frame %d: %d bytes, not the payload that was sent", r.got, len(m))
			}
			r.got++
		}
		ch <- r
	}()
	cl := nbt.NewNBTTransport()
	addr := ln.Addr().(*net.TCPAddr)
	if err := cl.Connect(addr.IP, addr.Port); err != nil {
		return []vf.Finding{vf.F("harness", "cannot-connect", "%v", err)}
	}
	for i := 0; i < c.Frames; i++ {
		if _, err := cl.Send(payload(c.Len, byte(i+1))); err != nil {
			cl.Close()
			<-ch
			return []vf.Finding{vf.F("NBTTransport.Send", "frameable-payload-refused", "tcp frame %d len %d: %v", i, c.Len, err)}
		}
	}
	cl.Close()
	r := <-ch
	if r.bad != "" {
		return []vf.Finding{vf.F("NBTTransport", "send-receive-not-identity", "%s", r.bad)}
	}
	if r.got != c.Frames {
		return []vf.Finding{vf.F("NBTTransport.Close", "sent-payloads-lost-at-close", "%d frames of %d bytes were sent successfully and the transport closed; the peer received %d, then: %v", c.Frames, c.Len, r.got, r.last)}
	}
	return nil
}

func TestSendThenClose(t *testing.T) {
	s := vf.Begin(t, P, "send-then-close")
	vf.Rapid(s, vf.N(12, 120), func(t *rapid.T) closeCase {
		return closeCase{Frames: rapid.IntRange(2, 10).Draw(t, "frames"), Len: rapid.SampledFrom([]int{0x1FFFF, 0x10000, 70000, 0x1FFFF}).Draw(t, "len"), PaceMs: rapid.IntRange(1, 12).Draw(t, "pace")}
	}, checkSendThenClose, func(c closeCase) bool { return c.Frames*c.Len > 300000 })
}

// ---- transports obtained from the factory are transports of their own ---------------------------------------------
//
// transport.NewTransport is how the SMB client obtains its session transport (anchor of the property). Several
// transports are obtained from it (the type spelled "nbt" or "NBT", the two spellings the repository itself uses), each is connected to a loopback listener
// of its own, and payloads tagged per transport travel in both directions, interleaved: what is sent through
// transport k arrives at peer k and nowhere else, and transport k receives what peer k sent. A factory that hands
// out one shared object sends every frame to the peer connected last.

type factoryCase struct {
	Names []string `json:"transport_types"` // one transport per entry
	Lens  []int    `json:"payload_lengths"`
	Order []int    `json:"send_order"` // indices into Names: the order in which the transports send
}

func checkFactory(c factoryCase) []vf.Finding {
	type peer struct {
		ln   net.Listener
		conn net.Conn
		side *nbt.NBTTransport // the peer's end, one transport for the life of the connection
		tr   transport.Transport
	}
	peers := make([]*peer, len(c.Names))
	defer func() {
		for _, p := range peers {
			if p == nil {
				continue
			}
			if p.tr != nil {
				p.tr.Close()
			}
			if p.conn != nil {
				p.conn.Close()
			}
			if p.ln != nil {
				p.ln.Close()
			}
		}
	}()
	for k, name := range c.Names {
		ln, err := net.Listen("tcp", "127.0.0.1:0")
		if err != nil {
			return []vf.Finding{vf.F("harness", "cannot-listen", "%v", err)}
		}
		p := &peer{ln: ln}
		peers[k] = p
		p.tr = transport.NewTransport(name)
		if p.tr == nil {
			return []vf.Finding{vf.F("transport.NewTransport", "known-type-refused", "NewTransport(%q) = nil", name)}
		}
		addr := ln.Addr().(*net.TCPAddr)
		acc := make(chan net.Conn, 1)
		go func() {
			conn, _ := ln.Accept()
			acc <- conn
		}()
		if err := p.tr.Connect(addr.IP, addr.Port); err != nil {
			return []vf.Finding{vf.F("harness", "cannot-connect", "%v", err)}
		}
		select {
		case p.conn = <-acc:
		case <-time.After(10 * time.Second):
			return []vf.Finding{vf.F("harness", "cannot-accept", "no connection within 10 s")}
		}
		if p.conn == nil {
			return []vf.Finding{vf.F("harness", "cannot-accept", "accept failed")}
		}
		p.side = nbt.NewNBTTransportFromConn(p.conn)
	}
	// transport k -> peer k
	for r, k := range c.Order {
		n := c.Lens[r%len(c.Lens)]
		pl := payload(n, byte(0x40+k))
		if _, err := peers[k].tr.Send(append([]byte{}, pl...)); err != nil {
			return []vf.Finding{vf.F("Transport.Send", "frameable-payload-refused", "transport %d, len %d: %v", k, n, err)}
		}
		peers[k].conn.SetReadDeadline(time.Now().Add(10 * time.Second))
		got, err := peers[k].side.Receive()
		if err != nil || !bytes.Equal(got, pl) {
			return []vf.Finding{vf.F("transport.NewTransport", "frame-not-delivered-to-own-peer", "send %d: transport %d of %d sent %d bytes; its own peer received %d bytes (err %v)", r+1, k+1, len(peers), len(pl), len(got), err)}
		}
	}
	// peer k -> transport k: all peers write first, then every transport reads
	for k, p := range peers {
		pl := payload(c.Lens[k%len(c.Lens)], byte(0x80+k))
		if _, err := p.side.Send(pl); err != nil {
			return []vf.Finding{vf.F("harness", "peer-cannot-send", "%v", err)}
		}
	}
	for k, p := range peers {
		want := payload(c.Lens[k%len(c.Lens)], byte(0x80+k))
		type res struct {
			got []byte
			err error
		}
		ch := make(chan res, 1)
		go func() {
			got, err := p.tr.Receive()
			ch <- res{got, err}
		}()
		select {
		case r := <-ch:
			if r.err != nil || !bytes.Equal(r.got, want) {
				return []vf.Finding{vf.F("transport.NewTransport", "frame-of-another-peer-received", "transport %d of %d: its peer sent %d bytes (tag %#x); Receive gave %d bytes (first byte %x, err %v)", k+1, len(peers), len(want), 0x80+k, len(r.got), r.got[:min(len(r.got), 1)], r.err)}
			}
		case <-time.After(10 * time.Second):
			return []vf.Finding{vf.F("transport.NewTransport", "frame-not-delivered-to-own-transport", "transport %d of %d: its peer sent %d bytes, Receive did not return within 10 s", k+1, len(peers), len(want))}
		}
	}
	return nil
}

func TestFactoryTransports(t *testing.T) {
	s := vf.Begin(t, P, "factory-transports-independent")
	vf.Rapid(s, vf.N(60, 800), func(t *rapid.T) factoryCase {
		n := rapid.IntRange(2, 4).Draw(t, "transports")
		var c factoryCase
		for i := 0; i < n; i++ {
			c.Names = append(c.Names, rapid.SampledFrom([]string{"nbt", "nbt", "nbt", "NBT"}).Draw(t, "type"))
		}
		c.Lens = rapid.SliceOfN(rapid.OneOf(rapid.IntRange(0, 600), rapid.SampledFrom([]int{0, 1, 4096, 4097, 65535, 65536, 70000})), 1, 4).Draw(t, "lens")
		for i, m := 0, rapid.IntRange(n, 3*n).Draw(t, "sends"); i < m; i++ {
			c.Order = append(c.Order, rapid.IntRange(0, n-1).Draw(t, "sender"))
		}
		return c
	}, checkFactory, func(c factoryCase) bool { return len(c.Names) >= 2 })
}
