package probe

import (
	"fmt"
	"reflect"
	"sort"
	"strings"
	"testing"

	"pgregory.net/rapid"

	"manticoreverif/smbgen"
)

func norm(v reflect.Value) interface{} {
	if v.Kind() == reflect.Slice && v.Len() == 0 {
		return nil
	}
	return v.Interface()
}

func TestLandscape(t *testing.T) {
	res := map[string]map[string]int{}
	for _, e := range smbgen.Inventory() {
		e := e
		res[e.Name] = map[string]int{}
		rapid.Check(t, func(rt *rapid.T) {
			c := smbgen.New(e)
			smbgen.Fill(rt, c, smbgen.Options{MaxBytes: 24})
			var enc []byte
			var err error
			func() {
				defer func() {
					if r := recover(); r != nil {
						err = fmt.Errorf("PANIC marshal %v", r)
					}
				}()
				enc, err = c.Marshal()
			}()
			if err != nil {
				res[e.Name]["marshal-error:"+err.Error()]++
				return
			}
			d := smbgen.New(e)
			func() {
				defer func() {
					if r := recover(); r != nil {
						err = fmt.Errorf("PANIC unmarshal %v", r)
					}
				}()
				_, err = d.Unmarshal(enc)
			}()
			if err != nil {
				m := err.Error()
				if len(m) > 60 {
					m = m[:60]
				}
				res[e.Name]["unmarshal-error:"+m]++
				return
			}
			cv, dv := reflect.ValueOf(c).Elem(), reflect.ValueOf(d).Elem()
			ok := true
			for _, f := range smbgen.OwnFields(c) {
				if !reflect.DeepEqual(norm(cv.FieldByName(f.Name)), norm(dv.FieldByName(f.Name))) {
					res[e.Name]["field:"+f.Name]++
					ok = false
				}
			}
			if ok {
				smbgen.ResetAccumulators(d)
				enc2, err := d.Marshal()
				if err != nil || string(enc2) != string(enc) {
					res[e.Name]["reencode-differs"]++
				} else {
					res[e.Name]["OK"]++
				}
			}
		})
	}
	var names []string
	for n := range res {
		names = append(names, n)
	}
	sort.Strings(names)
	good := 0
	for _, n := range names {
		var parts []string
		for k, v := range res[n] {
			parts = append(parts, fmt.Sprintf("%s=%d", k, v))
		}
		sort.Strings(parts)
		if len(parts) == 1 && strings.HasPrefix(parts[0], "OK=") {
			good++
			continue
		}
		fmt.Printf("%-32s %s\n", n, strings.Join(parts, "  "))
	}
	fmt.Println("fully OK structs:", good, "of", len(names))
}
