// Package c08: NTLMSSP and SPNEGO tokens are structurally exact in both directions.
package c08

import (
	"bytes"
	"encoding/asn1"
	"fmt"
	"testing"

	"pgregory.net/rapid"

	"github.com/TheManticoreProject/Manticore/network/smb/smb_v10/spnego"
	"github.com/TheManticoreProject/Manticore/network/smb/smb_v10/spnego/ntlm"

	"manticoreverif/ref/alpha"
	"manticoreverif/ref/nlmp"
	"manticoreverif/ref/refcrypto"
	"manticoreverif/vf"
)

const P = "C08"

func isASCII(s string) bool { return !alpha.HasNonASCII(s) }

// genName draws a domain / workstation / user / target name: empty, from the full alphabet (Unicode mode only;
// alpha.String has its own long tail) or 7-bit ASCII 0x20..0x7E, spaces included. ASCII names are the only ones
// the OEM character set is judged on, so they have the same long-tail length class as the others: mostly 1..15
// characters, one in twelve 16..315 (beyond the 15-byte NetBIOS, 20-character account, 64 and 255 limits at which
// an implementation is tempted to cut).
func genName(t *rapid.T, label string, unicode bool) string {
	switch rapid.IntRange(0, 5).Draw(t, label+"Class") {
	case 0:
		return ""
	case 1, 2:
		if unicode {
			return alpha.String(t, label, 14, "")
		}
	}
	n := rapid.IntRange(1, 15).Draw(t, label+"Len")
	if rapid.IntRange(0, 11).Draw(t, label+"LenClass") == 11 {
		n = 15 + rapid.IntRange(1, alpha.LongTail).Draw(t, label+"LongLen")
	}
	b := make([]byte, n)
	for i := range b {
		b[i] = byte(rapid.IntRange(0x20, 0x7e).Draw(t, label+"Ch"))
	}
	return string(b)
}

// expected payload bytes of a name in the negotiated character set; names the
// library upper-cases (domain, workstation) are compared modulo case.
func sameName(payload []byte, supplied string, unicode bool, foldCase bool) bool {
	if unicode {
		want := refcrypto.UTF16LE(supplied)
		if bytes.Equal(payload, want) {
			return true
		}
		return foldCase && bytes.Equal(payload, refcrypto.UTF16LE(alpha.UpperString(supplied)))
	}
	if !isASCII(supplied) {
		return true // OEM code page of non-ASCII text is unspecified: not judged
	}
	if bytes.Equal(payload, []byte(supplied)) {
		return true
	}
	return foldCase && bytes.Equal(payload, []byte(alpha.UpperString(supplied)))
}

// plausibleOEM: could payload be supplied in some OEM (8-bit or multi-byte) code page? Which code page that is
// is not specified, so for non-ASCII text only what every such encoding has in common is demanded: each rune
// takes at least one byte and at most four, the 7-bit runes of the name appear as themselves (modulo
// upper-casing), in their order, and a zero byte stands for nothing but U+0000. UTF-16 text (of anything but
// U+0000s) is thereby not an OEM payload.
func plausibleOEM(payload []byte, supplied string) bool {
	runes, nuls := 0, 0
	at := 0
	for _, r := range supplied {
		runes++
		if r == 0 {
			nuls++
		}
		if r > 0x7f {
			continue
		}
		for at < len(payload) && payload[at] != byte(r) && payload[at] != byte(alpha.Upper(r)) {
			at++
		}
		if at == len(payload) {
			return false
		}
		at++
	}
	return len(payload) >= runes && len(payload) <= 4*runes && bytes.Count(payload, []byte{0}) == nuls
}

// negotiateName: is payload the name a NEGOTIATE message was built for? NEGOTIATE names are OEM on the wire per
// MS-NLMP 2.2.1.1; the library writes them in the character set it announces, which the property words as "the
// negotiated character set". Either is accepted as long as the payload is an encoding of the supplied name:
// UTF-16LE when Unicode was requested, or the OEM form - judged exactly for 7-bit names, by plausibleOEM for
// others.
func negotiateName(payload []byte, supplied string, unicode bool) bool {
	if unicode && sameName(payload, supplied, true, true) {
		return true
	}
	if isASCII(supplied) {
		return sameName(payload, supplied, false, true)
	}
	return plausibleOEM(payload, supplied)
}

// ---- NEGOTIATE ----------------------------------------------------------------------------------

type negCase struct {
	Domain      string `json:"domain"`
	Workstation string `json:"workstation"`
	Unicode     bool   `json:"unicode"`
}

func checkNegotiate(c negCase) []vf.Finding {
	msg, err := ntlm.CreateNegotiateMessage(c.Domain, c.Workstation, c.Unicode)
	if err != nil {
		return []vf.Finding{vf.F("ntlm.CreateNegotiateMessage", "error", "%v", err)}
	}
	return checkNegotiateMsg("ntlm.CreateNegotiateMessage", msg, c)
}

// checkNegotiateMsg judges a NEGOTIATE message that who built for the names in c.
func checkNegotiateMsg(who string, msg []byte, c negCase) []vf.Finding {
	n, problems := nlmp.ParseNegotiate(msg)
	var fs []vf.Finding
	for _, p := range problems {
		fs = append(fs, vf.F(who, "negotiate-structure-invalid", "%s (domain %q workstation %q unicode %v)", p, c.Domain, c.Workstation, c.Unicode))
	}
	if n == nil || len(problems) > 0 {
		return fs
	}
	uni := n.Flags&nlmp.FlagUnicode != 0
	oem := n.Flags&nlmp.FlagOEM != 0
	// UNICODE is announced iff it was requested; without it OEM must be announced; OEM next to UNICODE is an
	// offer of both (MS-NLMP 2.2.2.5: with A set the choice is Unicode), which Windows clients make
	if uni != c.Unicode || (!c.Unicode && !oem) {
		fs = append(fs, vf.F(who, "charset-flags-differ-from-request", "flags %#x for unicode=%v", n.Flags, c.Unicode))
	}
	// either character set, as long as the payload is an encoding of the supplied name (see negotiateName)
	for _, f := range []struct {
		fld  nlmp.Field
		name string
	}{{n.Domain, c.Domain}, {n.Workstation, c.Workstation}} {
		if !negotiateName(f.fld.Data, f.name, c.Unicode) {
			fs = append(fs, vf.F(who, "name-bytes-differ-from-charset-encoding", "%s: payload %x for %q (unicode %v)", f.fld.Name, f.fld.Data, f.name, c.Unicode))
		}
	}
	if n.Flags&nlmp.FlagVersion != 0 && len(msg) < 40 {
		fs = append(fs, vf.F(who, "version-flag-without-version", "len %d", len(msg)))
	}
	// bytes that no descriptor designates (alignment padding between payloads) are not judged: bounds, exactness
	// of each descriptor and disjointness are ParseNegotiate's and the payload comparison's above
	return fs
}

func TestNegotiate(t *testing.T) {
	s := vf.Begin(t, P, "negotiate-structure")
	vf.Rapid(s, vf.N(6000, 100000), func(t *rapid.T) negCase {
		u := rapid.Bool().Draw(t, "unicode")
		return negCase{genName(t, "domain", u), genName(t, "ws", u), u}
	}, checkNegotiate, func(c negCase) bool { return c.Domain != "" && c.Workstation != "" })
}

// The NEGOTIATE message as a client gets it: from an AuthContext, wrapped in a NegTokenInit. The same
// structure rules apply to the message inside, and its two descriptors designate the context's domain and
// workstation (not each other's, nor the user name or the password).
type negTokCase struct {
	Domain      string `json:"domain"`
	User        string `json:"user"`
	Password    string `json:"password"`
	Workstation string `json:"workstation"`
	Unicode     bool   `json:"unicode"`
}

func checkNegotiateToken(c negTokCase) []vf.Finding {
	const who = "AuthContext.CreateNegotiateToken"
	ctx := spnego.NewAuthContext(spnego.AuthTypeNTLM, c.Domain, c.User, c.Password, c.Workstation, c.Unicode)
	wire, err := ctx.CreateNegotiateToken()
	if err != nil {
		return []vf.Finding{vf.F(who, "error", "%v", err)}
	}
	fs := checkOuter(who, wire)
	msg, err := spnego.ExtractNTLMToken(wire)
	if err != nil {
		return append(fs, vf.F(who, "output-token-not-extractable", "%v", err))
	}
	return append(fs, checkNegotiateMsg(who, msg, negCase{c.Domain, c.Workstation, c.Unicode})...)
}

func TestNegotiateToken(t *testing.T) {
	s := vf.Begin(t, P, "negotiate-token")
	vf.Rapid(s, vf.N(4000, 60000), func(t *rapid.T) negTokCase {
		u := rapid.Bool().Draw(t, "unicode")
		return negTokCase{genName(t, "domain", u), genName(t, "user", u), alpha.String(t, "pw", 12, ""), genName(t, "ws", u), u}
	}, checkNegotiateToken, func(c negTokCase) bool {
		// the four strings are told apart by their payloads (names are compared modulo case)
		d, w := alpha.UpperString(c.Domain), alpha.UpperString(c.Workstation)
		return d != "" && w != "" && d != w && d != alpha.UpperString(c.User) && w != alpha.UpperString(c.User)
	})
}

// ---- CHALLENGE parsing and AUTHENTICATE structure --------------------------------------------------

type av struct {
	ID    uint16 `json:"id"`
	Value vf.Hex `json:"value"`
}
type chalCase struct {
	Flags           uint32 `json:"flags"`
	ServerChallenge vf.Hex `json:"server_challenge"`
	TargetName      string `json:"target_name"`
	Pairs           []av   `json:"target_info"`
	HasInfo         bool   `json:"has_info"`
	Version         vf.Hex `json:"version"`
	InfoFirst       bool   `json:"info_first"`
	Gap0            vf.Hex `json:"gap0"`
	Gap1            vf.Hex `json:"gap1"`
	Tail            vf.Hex `json:"tail"`
	// by how much the MaxLen slot of each descriptor exceeds Len (MS-NLMP 2.2.1.2: MaxLen "SHOULD be set to"
	// Len "and MUST be ignored on receipt"); Len+extra is capped at 65535 and may run past the message
	NameMaxExtra int `json:"name_maxlen_extra,omitempty"`
	InfoMaxExtra int `json:"info_maxlen_extra,omitempty"`
	// identity for the AUTHENTICATE built from this challenge
	User, Password, Domain, Workstation string
}

func (c chalCase) build() (*nlmp.Challenge, []nlmp.AvPair) {
	var pairs []nlmp.AvPair
	for _, p := range c.Pairs {
		pairs = append(pairs, nlmp.AvPair{ID: p.ID, Value: p.Value})
	}
	ch := &nlmp.Challenge{Flags: c.Flags, InfoFirst: c.InfoFirst, Gap0: c.Gap0, Gap1: c.Gap1, Tail: c.Tail}
	copy(ch.ServerChallenge[:], c.ServerChallenge)
	copy(ch.Version[:], c.Version)
	if c.Flags&nlmp.FlagUnicode != 0 {
		ch.TargetName = refcrypto.UTF16LE(c.TargetName)
	} else {
		ch.TargetName = []byte(c.TargetName)
	}
	if c.HasInfo {
		ch.TargetInfo = nlmp.EncodeAvPairs(pairs)
	}
	return ch, pairs
}

// wire is the CHALLENGE message of the case: the reference builder's layout with the MaxLen slots raised.
func (c chalCase) wire() (*nlmp.Challenge, []nlmp.AvPair, []byte) {
	ch, pairs := c.build()
	b := ch.Build()
	for _, d := range []struct{ at, extra int }{{12, c.NameMaxExtra}, {40, c.InfoMaxExtra}} {
		if d.extra > 0 {
			l := int(b[d.at]) | int(b[d.at+1])<<8
			m := min(l+d.extra, 65535)
			b[d.at+2], b[d.at+3] = byte(m), byte(m>>8)
		}
	}
	return ch, pairs, b
}

func checkChallenge(c chalCase) []vf.Finding {
	ch, pairs, wire := c.wire()
	got, err := ntlm.ParseChallengeMessage(append([]byte{}, wire...))
	if err != nil || got == nil {
		return []vf.Finding{vf.F("ntlm.ParseChallengeMessage", "well-formed-challenge-rejected", "%v; wire %x", err, wire[:56])}
	}
	var fs []vf.Finding
	if got.NegotiateFlags != c.Flags {
		fs = append(fs, vf.F("ntlm.ParseChallengeMessage", "flags-differ", "got %#x want %#x", got.NegotiateFlags, c.Flags))
	}
	if !bytes.Equal(got.ServerChallenge[:], c.ServerChallenge) {
		fs = append(fs, vf.F("ntlm.ParseChallengeMessage", "server-challenge-differs", "got %x want %x", got.ServerChallenge, []byte(c.ServerChallenge)))
	}
	// MS-NLMP 2.2.1.2: without NTLMSSP_REQUEST_TARGET the TargetNameFields, and without
	// NTLMSSP_NEGOTIATE_TARGET_INFO the TargetInfoFields, "MUST be ignored on receipt"; a parser may hand back
	// what they point at or nothing. Such messages are still generated (they must parse), the two fields are
	// judged only under their flag, as Version is.
	judgeName, judgeInfo := c.Flags&nlmp.FlagReqTarget != 0, c.Flags&nlmp.FlagTargetInf != 0
	if judgeName && !bytes.Equal(got.TargetName, ch.TargetName) {
		fs = append(fs, vf.F("ntlm.ParseChallengeMessage", "target-name-differs", "got %x want %x (info first %v, gaps %d/%d)", got.TargetName, ch.TargetName, c.InfoFirst, len(c.Gap0), len(c.Gap1)))
	}
	if judgeInfo && !bytes.Equal(got.TargetInfo, ch.TargetInfo) {
		fs = append(fs, vf.F("ntlm.ParseChallengeMessage", "target-info-differs", "got %d bytes want %d (info first %v, gaps %d/%d)", len(got.TargetInfo), len(ch.TargetInfo), c.InfoFirst, len(c.Gap0), len(c.Gap1)))
	}
	if c.Flags&nlmp.FlagVersion != 0 && len(c.Version) == 8 {
		// MS-NLMP 2.2.2.10, decoded here from the bytes that were sent: major, minor, build (16 bits, little-endian),
		// three reserved bytes ("MUST be ignored by the recipient": not judged), NTLM revision
		v := got.Version
		major, minor, build, rev := c.Version[0], c.Version[1], uint16(c.Version[2])|uint16(c.Version[3])<<8, c.Version[7]
		if v.ProductMajorVersion != major || v.ProductMinorVersion != minor || v.ProductBuild != build || v.NTLMRevision != rev {
			fs = append(fs, vf.F("ntlm.ParseChallengeMessage", "version-differs", "wire %x: got %d.%d build %d revision %d, want %d.%d build %d revision %d", []byte(c.Version),
				v.ProductMajorVersion, v.ProductMinorVersion, v.ProductBuild, v.NTLMRevision, major, minor, build, rev))
		} else if m, err := v.Marshal(); err != nil || len(m) != 8 || !bytes.Equal(m[:4], c.Version[:4]) || m[7] != rev {
			// and the value that was parsed correctly goes back on the wire as it came
			fs = append(fs, vf.F("ntlm.ParseChallengeMessage", "version-differs", "parsed %d.%d build %d revision %d from %x, re-encoded as %x (err %v)", major, minor, build, rev, []byte(c.Version), m, err))
		}
	}
	if c.HasInfo {
		// ParseTargetInfo is judged on every well-formed list: on the parsed message's where that is judged,
		// on the list as sent otherwise
		info := ch.TargetInfo
		if judgeInfo {
			info = got.TargetInfo
		}
		m, err := ntlm.ParseTargetInfo(append([]byte{}, info...))
		if err != nil {
			fs = append(fs, vf.F("ntlm.ParseTargetInfo", "well-formed-list-rejected", "%v", err))
		} else {
			// the terminating MsvAvEOL (id 0, no value) is a pair of the list too: a map that records it says
			// nothing the list does not; every other entry must be one of the pairs that were sent
			n := len(m)
			if v, ok := m[0]; ok && len(v) == 0 {
				n--
			}
			if n != len(pairs) {
				fs = append(fs, vf.F("ntlm.ParseTargetInfo", "pair-count-differs", "got %d want %d", n, len(pairs)))
			}
			for _, p := range pairs {
				if v, ok := m[p.ID]; !ok || !bytes.Equal(v, p.Value) {
					fs = append(fs, vf.F("ntlm.ParseTargetInfo", "pair-value-differs", "id %d: got %x (present %v) want %x", p.ID, v, ok, p.Value))
				}
			}
		}
	}
	return fs
}

var layoutFlags = []uint32{nlmp.FlagTargetInf, nlmp.FlagVersion, nlmp.FlagExtSec, nlmp.FlagReqTarget, nlmp.FlagNTLM, 0x00010000, 0x00020000, 0x20000000, 0x80000000, 0x00008000}

func genChal(t *rapid.T) chalCase {
	c := chalCase{ServerChallenge: rapid.SliceOfN(rapid.Byte(), 8, 8).Draw(t, "srv"), Version: rapid.SliceOfN(rapid.Byte(), 8, 8).Draw(t, "ver")}
	unicode := rapid.Bool().Draw(t, "unicode")
	if unicode {
		c.Flags |= nlmp.FlagUnicode
	} else {
		c.Flags |= nlmp.FlagOEM
	}
	for _, f := range layoutFlags {
		if rapid.Bool().Draw(t, "flag") {
			c.Flags |= f
		}
	}
	if rapid.IntRange(0, 9).Draw(t, "rawflags") == 0 {
		c.Flags = rapid.Uint32().Draw(t, "flagsRaw")
		unicode = c.Flags&nlmp.FlagUnicode != 0
	}
	c.TargetName = genName(t, "target", unicode)
	c.HasInfo = rapid.IntRange(0, 4).Draw(t, "hasInfo") != 0
	if c.HasInfo {
		ids := rapid.Permutation([]uint16{1, 2, 3, 4, 5, 6, 7, 8, 9, 10}).Draw(t, "ids")
		for i, n := 0, rapid.IntRange(0, 8).Draw(t, "npairs"); i < n; i++ {
			var l int
			if rapid.IntRange(0, 9).Draw(t, "big") == 0 {
				l = rapid.IntRange(100, 300).Draw(t, "avBig")
			} else {
				l = rapid.IntRange(0, 24).Draw(t, "avLen")
			}
			c.Pairs = append(c.Pairs, av{ids[i], rapid.SliceOfN(rapid.Byte(), l, l).Draw(t, "avVal")})
		}
	}
	c.InfoFirst = rapid.Bool().Draw(t, "infoFirst")
	gap := func(label string) vf.Hex {
		if rapid.IntRange(0, 2).Draw(t, label+"Has") != 0 {
			return nil
		}
		n := rapid.IntRange(1, 9).Draw(t, label+"Len")
		return rapid.SliceOfN(rapid.Byte(), n, n).Draw(t, label)
	}
	c.Gap0, c.Gap1, c.Tail = gap("gap0"), gap("gap1"), gap("tail")
	maxExtra := func(label string) int {
		switch rapid.IntRange(0, 5).Draw(t, label+"Class") {
		case 3:
			return rapid.IntRange(1, 2).Draw(t, label)
		case 4:
			return rapid.IntRange(1, 64).Draw(t, label)
		case 5:
			return rapid.IntRange(1, 65535).Draw(t, label)
		}
		return 0
	}
	c.NameMaxExtra, c.InfoMaxExtra = maxExtra("nameMaxExtra"), maxExtra("infoMaxExtra")
	c.User, c.Domain, c.Workstation = genName(t, "user", unicode), genName(t, "domain", unicode), genName(t, "ws", unicode)
	c.Password = alpha.String(t, "pw", 12, "")
	return c
}

func chalNontrivial(c chalCase) bool {
	return len(c.Pairs) >= 2 || alpha.HasNonASCII(c.TargetName) || (c.InfoFirst && c.TargetName != "")
}

func TestChallengeParse(t *testing.T) {
	s := vf.Begin(t, P, "challenge-parse")
	vf.Rapid(s, vf.N(8000, 150000), genChal, checkChallenge, chalNontrivial)
}

// noCharset: the CHALLENGE negotiates neither character set (only the raw flag words do that). A client may
// refuse to answer it (MS-NLMP 3.1.5.1.2: SEC_E_INVALID_TOKEN); an answer it does build is judged like any other.
func (c chalCase) noCharset() bool { return c.Flags&(nlmp.FlagUnicode|nlmp.FlagOEM) == 0 }

const flagKeyExch = 0x40000000 // NTLMSSP_NEGOTIATE_KEY_EXCH

func is7bit(s string) bool {
	for i := 0; i < len(s); i++ {
		if s[i] >= 0x80 {
			return false
		}
	}
	return true
}

// checkResponseFields: the three descriptors of an AUTHENTICATE that do not carry names designate their own
// fields too. c is the CHALLENGE that is answered, id the identity the answer was built for.
//
//   - NtChallengeResponseFields -> bytes that verify as the NT response to this challenge: DESL(NTOWFv1, server
//     challenge) without extended session security, otherwise an NTLMv2 response under the names the message
//     carries (judged when those names can be read back: Unicode, or 7-bit names in OEM);
//   - LmChallengeResponseFields -> exactly 24 bytes: with NTLMv2 the LMv2 response or Z(24) (MS-NLMP 3.1.5.1.2),
//     with NTLMv1 DESL(LMOWFv1, challenge) (content judged for 7-bit passwords only), a copy of the NT response
//     (the NoLMResponseNTLMv1 form) or Z(24);
//   - EncryptedRandomSessionKeyFields -> nothing, or 16 bytes when the message's own flags announce a key
//     exchange. A message that announces one and carries no key is not judged (the library implements none).
//
// No user name and no password is the anonymous identity of MS-NLMP (3.3.1 / 3.3.2 "special case for anonymous
// authentication"): next to the computed responses the anonymous form is accepted for it - NtChallengeResponseFields
// designates nothing and LmChallengeResponseFields the one byte Z(1). The session key descriptor is judged as always.
//
// Bytes of the payload that no descriptor designates remain allowed; a field's own bytes must be designated.
func checkResponseFields(who, pre string, a *nlmp.Authenticate, c chalCase, id identity) []vf.Finding {
	var fs []vf.Finding
	nt := refcrypto.NT(id.Password)
	unicode := c.Flags&nlmp.FlagUnicode != 0
	if id.User == "" && id.Password == "" && a.NT.Len == 0 && bytes.Equal(a.LM.Data, []byte{0}) {
		// the anonymous form: there is no response to verify
		return append(fs, checkSessionKeyField(who, pre, a)...)
	}
	if len(a.LM.Data) != 24 {
		fs = append(fs, vf.F(who, pre+"lm-response-descriptor-not-24-bytes", "LmChallengeResponseFields designates %d bytes at %d (NtChallengeResponseFields: %d bytes at %d)", a.LM.Len, a.LM.Offset, a.NT.Len, a.NT.Offset))
	}
	if c.Flags&nlmp.FlagExtSec != 0 {
		if unicode || isASCII(id.User+id.Domain) {
			user, domain := string(a.User.Data), string(a.Domain.Data)
			if unicode {
				user, domain = decodeUTF16(a.User.Data), decodeUTF16(a.Domain.Data)
			}
			for _, p := range nlmp.VerifyNTLMv2(nt, user, domain, c.ServerChallenge, a.NT.Data, nil) {
				fs = append(fs, vf.F(who, pre+"v2-response-does-not-verify", "server challenge %x: %s", []byte(c.ServerChallenge), p))
			}
			if len(a.LM.Data) == 24 && !bytes.Equal(a.LM.Data, make([]byte, 24)) {
				key := refcrypto.NTOWFv2(nt, user, domain)
				if want := refcrypto.HMACMD5(key, c.ServerChallenge, a.LM.Data[16:]); !bytes.Equal(want, a.LM.Data[:16]) {
					fs = append(fs, vf.F(who, pre+"lm-response-does-not-verify", "LmChallengeResponse %x is neither an LMv2 response to server challenge %x nor Z(24)", a.LM.Data, []byte(c.ServerChallenge)))
				}
			}
		}
	} else {
		want := refcrypto.DESL(nt[:], c.ServerChallenge)
		if !bytes.Equal(a.NT.Data, want) {
			fs = append(fs, vf.F(who, pre+"v1-response-does-not-verify", "server challenge %x: NtChallengeResponse %x, DESL(NT hash, challenge) = %x", []byte(c.ServerChallenge), a.NT.Data, want))
		}
		if len(a.LM.Data) == 24 && is7bit(id.Password) {
			lm := refcrypto.DESL(refcrypto.LM(id.Password), c.ServerChallenge)
			if !bytes.Equal(a.LM.Data, lm) && !bytes.Equal(a.LM.Data, want) && !bytes.Equal(a.LM.Data, make([]byte, 24)) {
				fs = append(fs, vf.F(who, pre+"lm-response-does-not-verify", "LmChallengeResponse %x is neither DESL(LM hash, challenge) = %x, nor the NT response, nor Z(24)", a.LM.Data, lm))
			}
		}
	}
	return append(fs, checkSessionKeyField(who, pre, a)...)
}

func checkSessionKeyField(who, pre string, a *nlmp.Authenticate) (fs []vf.Finding) {
	if k := a.SessionKey.Len; k != 0 && !(k == 16 && a.Flags&flagKeyExch != 0) {
		fs = append(fs, vf.F(who, pre+"session-key-descriptor-inconsistent-with-flags", "EncryptedRandomSessionKeyFields designates %d bytes, flags %#x (KEY_EXCH %v)", k, a.Flags, a.Flags&flagKeyExch != 0))
	}
	return fs
}

func checkAuthenticate(c chalCase) []vf.Finding {
	_, _, wire := c.wire()
	parsed, err := ntlm.ParseChallengeMessage(wire)
	if err != nil {
		return []vf.Finding{vf.F("ntlm.ParseChallengeMessage", "well-formed-challenge-rejected", "%v", err)}
	}
	msg, err := ntlm.CreateAuthenticateMessage(parsed, c.User, c.Password, c.Domain, c.Workstation)
	if err != nil {
		if c.noCharset() {
			return nil
		}
		return []vf.Finding{vf.F("ntlm.CreateAuthenticateMessage", "error", "%v", err)}
	}
	a, problems := nlmp.ParseAuthenticate(msg)
	var fs []vf.Finding
	for _, p := range problems {
		fs = append(fs, vf.F("ntlm.CreateAuthenticateMessage", "authenticate-structure-invalid", "%s", p))
	}
	if a == nil || len(problems) > 0 {
		return fs
	}
	unicode := c.Flags&nlmp.FlagUnicode != 0
	if (a.Flags&nlmp.FlagUnicode != 0) != unicode {
		fs = append(fs, vf.F("ntlm.CreateAuthenticateMessage", "charset-flag-differs-from-challenge", "flags %#x, challenge unicode %v", a.Flags, unicode))
	}
	for _, f := range []struct {
		fld  nlmp.Field
		name string
		fold bool
	}{{a.Domain, c.Domain, true}, {a.User, c.User, false}, {a.Workstation, c.Workstation, true}} {
		if !sameName(f.fld.Data, f.name, unicode, f.fold) {
			fs = append(fs, vf.F("ntlm.CreateAuthenticateMessage", "name-bytes-differ-from-charset-encoding", "%s: payload %x for %q (unicode %v)", f.fld.Name, f.fld.Data, f.name, unicode))
		}
	}
	// the fixed part may be 64, 72 (Version) or 88 bytes (Version and MIC) long: ParseAuthenticate reads the form
	// off the first payload offset; as for NEGOTIATE, padding bytes outside every descriptor are not judged
	return append(fs, checkResponseFields("ntlm.CreateAuthenticateMessage", "", a, c, c.identity())...)
}

func TestAuthenticateStructure(t *testing.T) {
	s := vf.Begin(t, P, "authenticate-structure")
	vf.Rapid(s, vf.N(6000, 100000), genChal, checkAuthenticate, func(c chalCase) bool {
		return c.User != "" && c.Domain != "" && (alpha.HasNonASCII(c.User+c.Domain+c.Workstation) || len(c.Pairs) >= 1)
	})
}

// ---- SPNEGO --------------------------------------------------------------------------------------

type tokCase struct {
	Len   int   `json:"len"`
	Salt  byte  `json:"salt"`
	State int   `json:"neg_state"`
	Mech  []int `json:"mech_oid"`
}

func token(n int, salt byte) []byte {
	b := make([]byte, n)
	for i := range b {
		b[i] = byte(i*7) ^ salt ^ byte(i>>8)
	}
	return b
}

var spnegoOIDDER = []byte{0x06, 0x06, 0x2b, 0x06, 0x01, 0x05, 0x05, 0x02}

func checkOuter(who string, wire []byte) []vf.Finding {
	tag, content, rest, err := nlmp.DER(wire)
	if err != nil {
		return []vf.Finding{vf.F(who, "outer-der-invalid", "%v; head %x", err, wire[:min(len(wire), 12)])}
	}
	var fs []vf.Finding
	if tag != 0x60 {
		fs = append(fs, vf.F(who, "outer-tag-not-0x60", "%#x", tag))
	}
	if len(rest) != 0 {
		fs = append(fs, vf.F(who, "outer-length-not-remaining-bytes", "%d bytes after the outer element", len(rest)))
	}
	if !bytes.HasPrefix(content, spnegoOIDDER) {
		fs = append(fs, vf.F(who, "spnego-oid-missing", "%x", content[:min(len(content), 10)]))
		return fs
	}
	// the inner element must itself be one well-formed DER element that fills the rest
	if _, _, r2, err := nlmp.DER(content[len(spnegoOIDDER):]); err != nil || len(r2) != 0 {
		fs = append(fs, vf.F(who, "inner-der-invalid", "err %v, %d trailing bytes", err, len(r2)))
	}
	return fs
}

func checkInit(c tokCase) []vf.Finding {
	tok := token(c.Len, c.Salt)
	wire, err := spnego.CreateNegTokenInit(append([]byte{}, tok...))
	if err != nil {
		return []vf.Finding{vf.F("spnego.CreateNegTokenInit", "error", "len %d: %v", c.Len, err)}
	}
	fs := checkOuter("spnego.CreateNegTokenInit", wire)
	got, err := spnego.ExtractNTLMToken(wire)
	if err != nil {
		kind := "wrapped-token-not-extractable"
		if c.Len == 0 {
			kind = "empty-token-not-extractable"
		}
		return append(fs, vf.F("spnego.ExtractNTLMToken", kind, "len %d: %v", c.Len, err))
	}
	if !bytes.Equal(got, tok) {
		fs = append(fs, vf.F("spnego.ExtractNTLMToken", "extracted-token-differs", "len %d: got %d bytes", c.Len, len(got)))
	}
	return fs
}

func checkResp(c tokCase) []vf.Finding {
	tok := token(c.Len, c.Salt)
	mech := asn1.ObjectIdentifier(c.Mech)
	wire, err := spnego.CreateNegTokenResp(asn1.Enumerated(c.State), mech, append([]byte{}, tok...))
	if err != nil {
		return []vf.Finding{vf.F("spnego.CreateNegTokenResp", "error", "len %d: %v", c.Len, err)}
	}
	fs := checkOuter("spnego.CreateNegTokenResp", wire)
	r, err := spnego.ParseNegTokenResp(wire)
	if err != nil || r == nil {
		return append(fs, vf.F("spnego.ParseNegTokenResp", "own-encoding-rejected", "len %d: %v", c.Len, err))
	}
	if int(r.NegState) != c.State {
		fs = append(fs, vf.F("spnego.ParseNegTokenResp", "neg-state-differs", "got %d want %d", r.NegState, c.State))
	}
	if !r.SupportedMech.Equal(mech) && !(len(mech) == 0 && len(r.SupportedMech) == 0) {
		fs = append(fs, vf.F("spnego.ParseNegTokenResp", "mech-differs", "got %v want %v", r.SupportedMech, mech))
	}
	if !bytes.Equal(r.ResponseToken, tok) {
		fs = append(fs, vf.F("spnego.ParseNegTokenResp", "response-token-differs", "len %d: got %d bytes", c.Len, len(r.ResponseToken)))
	}
	if c.Len > 0 {
		got, err := spnego.ExtractNTLMToken(wire)
		if err != nil || !bytes.Equal(got, tok) {
			fs = append(fs, vf.F("spnego.ExtractNTLMToken", "extracted-token-differs", "resp len %d: got %d bytes err %v", c.Len, len(got), err))
		}
	}
	return fs
}

var mechs = [][]int{{1, 3, 6, 1, 4, 1, 311, 2, 2, 10}, {1, 2, 840, 113554, 1, 2, 2}, {1, 3, 6, 1, 5, 5, 2}}

func TestSpnegoLengthsExhaustive(t *testing.T) {
	s := vf.Begin(t, P, "spnego-lengths-exhaustive")
	s.SetExhaustive()
	lo, hi := vf.Size(300, 700), 0
	_ = hi
	s.Note("token lengths 0..%d, every length within 40 of 65535 and of the points where nested DER lengths change form (thorough: 0..70000 around each boundary step 1)", lo)
	vf.Enum(s, func(yield func(tokCase)) {
		for n := 0; n <= lo; n++ {
			yield(tokCase{n, byte(n), n % 4, mechs[n%3]})
		}
		for _, c := range []int{65535, 65536 - 30, 16384, 32768} {
			w := vf.Size(40, 120)
			for d := -w; d <= w; d++ {
				if c+d > lo {
					yield(tokCase{c + d, byte(d), (c + d) % 4, mechs[(c+d)%3]})
				}
			}
		}
		yield(tokCase{70000, 1, 1, mechs[0]})
		yield(tokCase{200000, 2, 0, mechs[0]})
	}, func(c tokCase) []vf.Finding { return append(checkInit(c), checkResp(c)...) }, func(c tokCase) bool { return c.Len >= 128 })
}

func TestSpnegoRandom(t *testing.T) {
	s := vf.Begin(t, P, "spnego-random")
	vf.Rapid(s, vf.N(3000, 40000), func(t *rapid.T) tokCase {
		var n int
		switch rapid.IntRange(0, 3).Draw(t, "lenClass") {
		case 0:
			n = rapid.IntRange(0, 300).Draw(t, "small")
		case 1:
			n = rapid.IntRange(65400, 65700).Draw(t, "edge")
		default:
			n = rapid.IntRange(0, 80000).Draw(t, "len")
		}
		return tokCase{n, rapid.Byte().Draw(t, "salt"), rapid.IntRange(0, 3).Draw(t, "state"), mechs[rapid.IntRange(0, 2).Draw(t, "mech")]}
	}, func(c tokCase) []vf.Finding { return append(checkInit(c), checkResp(c)...) }, func(c tokCase) bool { return c.Len >= 128 })
}

// ---- end to end: ProcessChallengeToken ----------------------------------------------------------------

// identity is what an AuthContext is created with.
type identity struct {
	User, Password, Domain, Workstation string
}

// processOnce hands the CHALLENGE of c, wrapped in a NegTokenResp, to ctx and judges the AUTHENTICATE token
// that comes back against that challenge and the identity the context was created with. pre is put in front
// of the finding kinds.
//
// A context may refuse a CHALLENGE that negotiates no character set (see noCharset), and with mayRefuse any
// CHALLENGE: that is no finding, and *refused (if given) tells the caller that no AUTHENTICATE came back.
func processOnce(ctx *spnego.AuthContext, c chalCase, id identity, pre string, mayRefuse bool, refused *bool) []vf.Finding {
	const who = "AuthContext.ProcessChallengeToken"
	_, _, inner := c.wire()
	wrapped, err := spnego.CreateNegTokenResp(spnego.AcceptIncomplete, spnego.NtlmOID, inner)
	if err != nil {
		return []vf.Finding{vf.F("spnego.CreateNegTokenResp", "error", "%v", err)}
	}
	out, err := ctx.ProcessChallengeToken(wrapped)
	if err != nil {
		if mayRefuse || c.noCharset() {
			if refused != nil {
				*refused = true
			}
			return nil
		}
		return []vf.Finding{vf.F(who, pre+"well-formed-challenge-token-rejected", "%v", err)}
	}
	var fs []vf.Finding
	for _, f := range checkOuter(who, out) {
		f.Kind = pre + f.Kind
		fs = append(fs, f)
	}
	auth, err := spnego.ExtractNTLMToken(out)
	if err != nil {
		return append(fs, vf.F(who, pre+"output-token-not-extractable", "%v", err))
	}
	a, problems := nlmp.ParseAuthenticate(auth)
	for _, p := range problems {
		fs = append(fs, vf.F(who, pre+"authenticate-structure-invalid", "%s", p))
	}
	if a == nil || len(problems) > 0 {
		return fs
	}
	// whether the context keeps the parsed CHALLENGE is its own bookkeeping; one it does keep is the one it answered
	if ctx.NTLMChallenge != nil && !bytes.Equal(ctx.NTLMChallenge.ServerChallenge[:], c.ServerChallenge) {
		fs = append(fs, vf.F(who, pre+"challenge-not-recorded", "%v, processed server challenge %x", ctx.NTLMChallenge, []byte(c.ServerChallenge)))
	}
	unicode := c.Flags&nlmp.FlagUnicode != 0
	for _, f := range []struct {
		fld  nlmp.Field
		name string
		fold bool
	}{{a.Domain, id.Domain, true}, {a.User, id.User, false}, {a.Workstation, id.Workstation, true}} {
		if !sameName(f.fld.Data, f.name, unicode, f.fold) {
			fs = append(fs, vf.F(who, pre+"name-bytes-differ-from-charset-encoding", "%s: payload %x for %q (unicode %v)", f.fld.Name, f.fld.Data, f.name, unicode))
		}
	}
	// the response answers the challenge that was processed, and the other descriptors designate their fields
	return append(fs, checkResponseFields(who, pre, a, c, id)...)
}

func (c chalCase) identity() identity { return identity{c.User, c.Password, c.Domain, c.Workstation} }

func checkProcess(c chalCase) []vf.Finding {
	ctx := spnego.NewAuthContext(spnego.AuthTypeNTLM, c.Domain, c.User, c.Password, c.Workstation, c.Flags&nlmp.FlagUnicode != 0)
	return processOnce(ctx, c, c.identity(), "", false, nil)
}

// One context, two challenges in a row (a server may answer a retried session setup with a fresh challenge):
// the second AUTHENTICATE answers the second challenge and is as well-formed as the first. The property
// quantifies over inputs, not over the history of a context: one that has given its answer may refuse a further
// CHALLENGE with an error (a GSS context that has sent its last token is complete); that is a refusal, not a
// finding. An answer that is given is judged in full.
type twiceCase struct {
	First  chalCase `json:"first"`  // also supplies the identity of the context
	Second chalCase `json:"second"` // its identity fields are not used
}

func checkProcessTwice(c twiceCase) []vf.Finding {
	ctx := spnego.NewAuthContext(spnego.AuthTypeNTLM, c.First.Domain, c.First.User, c.First.Password, c.First.Workstation, c.First.Flags&nlmp.FlagUnicode != 0)
	var refused bool
	if fs := processOnce(ctx, c.First, c.First.identity(), "", false, &refused); len(fs) > 0 || refused {
		// a context that refused its first challenge has answered nothing: there is no "second" answer to judge
		return fs
	}
	return processOnce(ctx, c.Second, c.First.identity(), "reused-context-", true, nil)
}

func decodeUTF16(b []byte) string {
	var rs []rune
	for i := 0; i+1 < len(b); i += 2 {
		u := rune(b[i]) | rune(b[i+1])<<8
		if u >= 0xD800 && u < 0xDC00 && i+3 < len(b) {
			lo := rune(b[i+2]) | rune(b[i+3])<<8
			rs = append(rs, 0x10000+(u-0xD800)<<10+(lo-0xDC00))
			i += 2
			continue
		}
		rs = append(rs, u)
	}
	return string(rs)
}

func TestProcessChallenge(t *testing.T) {
	s := vf.Begin(t, P, "process-challenge")
	vf.Rapid(s, vf.N(3000, 50000), genChal, checkProcess, chalNontrivial)
}

func TestProcessChallengeTwice(t *testing.T) {
	s := vf.Begin(t, P, "process-challenge-twice")
	vf.Rapid(s, vf.N(2000, 40000), func(t *rapid.T) twiceCase {
		c := twiceCase{First: genChal(t), Second: genChal(t)}
		c.Second.User, c.Second.Password, c.Second.Domain, c.Second.Workstation = "", "", "", ""
		return c
	}, checkProcessTwice, func(c twiceCase) bool { return !bytes.Equal(c.First.ServerChallenge, c.Second.ServerChallenge) })
}

// ---- results-kept ---------------------------------------------------------------------------------
//
// Everything the two packages hand back as a slice (messages, tokens, the slices inside a parsed CHALLENGE and
// the values of a parsed target info) is the caller's value. All builders and parsers are run for one set of
// inputs and their results kept as returned; then all of them are run again for a second, different set; then
// the kept results are compared with what they were when they were returned. The inputs handed to the library
// are private copies that nobody writes to, so a result that legitimately aliases its input stays put too.

type keptCase struct {
	A    chalCase `json:"a"` // challenge and identity of the first round
	B    chalCase `json:"b"` // ... of the second
	TokA tokCase  `json:"tok_a"`
	TokB tokCase  `json:"tok_b"`
}

type keptValue struct {
	who      string
	now, was []byte
}

// keptRound runs every builder and parser once and returns the slices they handed back, each with a copy made
// at the moment it was returned. Errors are other sub-checks' business: a call that fails contributes nothing.
func keptRound(c chalCase, tc tokCase) (ks []keptValue) {
	keep := func(who string, b []byte, err error) {
		if err == nil && b != nil {
			ks = append(ks, keptValue{who, b, append([]byte{}, b...)})
		}
	}
	unicode := c.Flags&nlmp.FlagUnicode != 0
	neg, err := ntlm.CreateNegotiateMessage(c.Domain, c.Workstation, unicode)
	keep("ntlm.CreateNegotiateMessage", neg, err)
	ctx := spnego.NewAuthContext(spnego.AuthTypeNTLM, c.Domain, c.User, c.Password, c.Workstation, unicode)
	negTok, err := ctx.CreateNegotiateToken()
	keep("AuthContext.CreateNegotiateToken", negTok, err)
	_, _, wire := c.wire()
	if parsed, err := ntlm.ParseChallengeMessage(append([]byte{}, wire...)); err == nil && parsed != nil {
		keep("ntlm.ParseChallengeMessage TargetName", parsed.TargetName, nil)
		keep("ntlm.ParseChallengeMessage TargetInfo", parsed.TargetInfo, nil)
		keep("ntlm.ParseChallengeMessage ServerChallenge", parsed.ServerChallenge[:], nil)
		if m, err := ntlm.ParseTargetInfo(append([]byte{}, parsed.TargetInfo...)); err == nil {
			for _, p := range c.Pairs { // in the order of the case, not of the map
				keep(fmt.Sprintf("ntlm.ParseTargetInfo value of id %d", p.ID), m[p.ID], nil)
			}
		}
		auth, err := ntlm.CreateAuthenticateMessage(parsed, c.User, c.Password, c.Domain, c.Workstation)
		keep("ntlm.CreateAuthenticateMessage", auth, err)
	}
	tok := token(tc.Len, tc.Salt)
	initTok, err := spnego.CreateNegTokenInit(append([]byte{}, tok...))
	keep("spnego.CreateNegTokenInit", initTok, err)
	if err == nil {
		ex, err := spnego.ExtractNTLMToken(append([]byte{}, initTok...))
		keep("spnego.ExtractNTLMToken", ex, err)
	}
	resp, err := spnego.CreateNegTokenResp(asn1.Enumerated(tc.State), asn1.ObjectIdentifier(tc.Mech), append([]byte{}, tok...))
	keep("spnego.CreateNegTokenResp", resp, err)
	if err == nil {
		if r, err := spnego.ParseNegTokenResp(append([]byte{}, resp...)); err == nil && r != nil {
			keep("spnego.ParseNegTokenResp ResponseToken", r.ResponseToken, nil)
		}
	}
	if wrapped, err := spnego.CreateNegTokenResp(spnego.AcceptIncomplete, spnego.NtlmOID, append([]byte{}, wire...)); err == nil {
		out, err := ctx.ProcessChallengeToken(wrapped)
		keep("AuthContext.ProcessChallengeToken", out, err)
	}
	return ks
}

func checkKept(c keptCase) []vf.Finding {
	first := keptRound(c.A, c.TokA)
	keptRound(c.B, c.TokB)
	var fs []vf.Finding
	for _, k := range first {
		if !bytes.Equal(k.now, k.was) {
			i := 0
			for i < len(k.now) && i < len(k.was) && k.now[i] == k.was[i] {
				i++
			}
			fs = append(fs, vf.F(k.who, "returned-value-changed-by-later-call", "%d bytes as returned; after the same calls were made for other inputs the value differs from byte %d on (was %x, is %x)", len(k.was), i, k.was[i:min(len(k.was), i+16)], k.now[i:min(len(k.now), i+16)]))
		}
	}
	return fs
}

func TestResultsKept(t *testing.T) {
	s := vf.Begin(t, P, "results-kept")
	genTok := func(t *rapid.T, label string) tokCase {
		n := rapid.IntRange(1, 300).Draw(t, label+"Len")
		if rapid.IntRange(0, 9).Draw(t, label+"Big") == 0 {
			n = rapid.IntRange(301, 70000).Draw(t, label+"LenBig")
		}
		return tokCase{n, rapid.Byte().Draw(t, label+"Salt"), rapid.IntRange(0, 3).Draw(t, label+"State"), mechs[rapid.IntRange(0, 2).Draw(t, label+"Mech")]}
	}
	vf.Rapid(s, vf.N(1500, 25000), func(t *rapid.T) keptCase {
		return keptCase{A: genChal(t), B: genChal(t), TokA: genTok(t, "tokA"), TokB: genTok(t, "tokB")}
	}, checkKept, func(c keptCase) bool {
		return !bytes.Equal(c.A.ServerChallenge, c.B.ServerChallenge) && (c.A.Domain != c.B.Domain || c.A.User != c.B.User || c.A.Workstation != c.B.Workstation)
	})
}
