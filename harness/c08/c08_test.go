// Package c08: NTLMSSP and SPNEGO tokens are structurally exact in both directions.
package c08

import (
	"bytes"
	"encoding/asn1"
	"fmt"
	"testing"

	"pgregory.net/rapid"

	"github.com/TheManticoreProject/Manticore/network/smb/smb_v10/spnego"
	"github.com/TheManticoreProject/Manticore/network/smb/smb_v10/spnego/ntlm"

	"manticoreverif/ref/alpha"
	"manticoreverif/ref/nlmp"
	"manticoreverif/ref/refcrypto"
	"manticoreverif/vf"
)

const P = "C08"

func isASCII(s string) bool { return !alpha.HasNonASCII(s) }

func genName(t *rapid.T, label string, unicode bool) string {
	switch rapid.IntRange(0, 5).Draw(t, label+"Class") {
	case 0:
		return ""
	case 1, 2:
		if unicode {
			return alpha.String(t, label, 14, "")
		}
	}
	n := rapid.IntRange(1, 15).Draw(t, label+"Len")
	b := make([]byte, n)
	for i := range b {
		b[i] = byte(rapid.IntRange(0x21, 0x7e).Draw(t, label+"Ch"))
	}
	return string(b)
}

// expected payload bytes of a name in the negotiated character set; names the
// library upper-cases (domain, workstation) are compared modulo case.
func sameName(payload []byte, supplied string, unicode bool, foldCase bool) bool {
	if unicode {
		want := refcrypto.UTF16LE(supplied)
		if bytes.Equal(payload, want) {
			return true
		}
		return foldCase && bytes.Equal(payload, refcrypto.UTF16LE(alpha.UpperString(supplied)))
	}
	if !isASCII(supplied) {
		return true // OEM code page of non-ASCII text is unspecified: not judged
	}
	if bytes.Equal(payload, []byte(supplied)) {
		return true
	}
	return foldCase && bytes.Equal(payload, []byte(alpha.UpperString(supplied)))
}

// ---- NEGOTIATE ----------------------------------------------------------------------------------

type negCase struct {
	Domain      string `json:"domain"`
	Workstation string `json:"workstation"`
	Unicode     bool   `json:"unicode"`
}

func checkNegotiate(c negCase) []vf.Finding {
	msg, err := ntlm.CreateNegotiateMessage(c.Domain, c.Workstation, c.Unicode)
	if err != nil {
		return []vf.Finding{vf.F("ntlm.CreateNegotiateMessage", "error", "%v", err)}
	}
	return checkNegotiateMsg("ntlm.CreateNegotiateMessage", msg, c)
}

// checkNegotiateMsg judges a NEGOTIATE message that who built for the names in c.
func checkNegotiateMsg(who string, msg []byte, c negCase) []vf.Finding {
	n, problems := nlmp.ParseNegotiate(msg)
	var fs []vf.Finding
	for _, p := range problems {
		fs = append(fs, vf.F(who, "negotiate-structure-invalid", "%s (domain %q workstation %q unicode %v)", p, c.Domain, c.Workstation, c.Unicode))
	}
	if n == nil || len(problems) > 0 {
		return fs
	}
	uni := n.Flags&nlmp.FlagUnicode != 0
	oem := n.Flags&nlmp.FlagOEM != 0
	// UNICODE is announced iff it was requested; without it OEM must be announced; OEM next to UNICODE is an
	// offer of both (MS-NLMP 2.2.2.5: with A set the choice is Unicode), which Windows clients make
	if uni != c.Unicode || (!c.Unicode && !oem) {
		fs = append(fs, vf.F(who, "charset-flags-differ-from-request", "flags %#x for unicode=%v", n.Flags, c.Unicode))
	}
	// NEGOTIATE names are always OEM on the wire per MS-NLMP 2.2.1.1 ("DomainName ... in OEM character set");
	// the library writes them in the charset it announces, which the property words as "the negotiated
	// character set": accept either, as long as the payload is an encoding of the supplied name.
	for _, f := range []struct {
		fld  nlmp.Field
		name string
	}{{n.Domain, c.Domain}, {n.Workstation, c.Workstation}} {
		if !(sameName(f.fld.Data, f.name, c.Unicode, true) || sameName(f.fld.Data, f.name, false, true)) {
			fs = append(fs, vf.F(who, "name-bytes-differ-from-charset-encoding", "%s: payload %x for %q (unicode %v)", f.fld.Name, f.fld.Data, f.name, c.Unicode))
		}
	}
	if n.Flags&nlmp.FlagVersion != 0 && len(msg) < 40 {
		fs = append(fs, vf.F(who, "version-flag-without-version", "len %d", len(msg)))
	}
	// bytes that no descriptor designates (alignment padding between payloads) are not judged: bounds, exactness
	// of each descriptor and disjointness are ParseNegotiate's and the payload comparison's above
	return fs
}

func TestNegotiate(t *testing.T) {
	s := vf.Begin(t, P, "negotiate-structure")
	vf.Rapid(s, vf.N(6000, 100000), func(t *rapid.T) negCase {
		u := rapid.Bool().Draw(t, "unicode")
		return negCase{genName(t, "domain", u), genName(t, "ws", u), u}
	}, checkNegotiate, func(c negCase) bool { return c.Domain != "" && c.Workstation != "" })
}

// The NEGOTIATE message as a client gets it: from an AuthContext, wrapped in a NegTokenInit. The same
// structure rules apply to the message inside, and its two descriptors designate the context's domain and
// workstation (not each other's, nor the user name or the password).
type negTokCase struct {
	Domain      string `json:"domain"`
	User        string `json:"user"`
	Password    string `json:"password"`
	Workstation string `json:"workstation"`
	Unicode     bool   `json:"unicode"`
}

func checkNegotiateToken(c negTokCase) []vf.Finding {
	const who = "AuthContext.CreateNegotiateToken"
	ctx := spnego.NewAuthContext(spnego.AuthTypeNTLM, c.Domain, c.User, c.Password, c.Workstation, c.Unicode)
	wire, err := ctx.CreateNegotiateToken()
	if err != nil {
		return []vf.Finding{vf.F(who, "error", "%v", err)}
	}
	fs := checkOuter(who, wire)
	msg, err := spnego.ExtractNTLMToken(wire)
	if err != nil {
		return append(fs, vf.F(who, "output-token-not-extractable", "%v", err))
	}
	return append(fs, checkNegotiateMsg(who, msg, negCase{c.Domain, c.Workstation, c.Unicode})...)
}

func TestNegotiateToken(t *testing.T) {
	s := vf.Begin(t, P, "negotiate-token")
	vf.Rapid(s, vf.N(4000, 60000), func(t *rapid.T) negTokCase {
		u := rapid.Bool().Draw(t, "unicode")
		return negTokCase{genName(t, "domain", u), genName(t, "user", u), alpha.String(t, "pw", 12, ""), genName(t, "ws", u), u}
	}, checkNegotiateToken, func(c negTokCase) bool {
		// the four strings are told apart by their payloads (names are compared modulo case)
		d, w := alpha.UpperString(c.Domain), alpha.UpperString(c.Workstation)
		return d != "" && w != "" && d != w && d != alpha.UpperString(c.User) && w != alpha.UpperString(c.User)
	})
}

// ---- CHALLENGE parsing and AUTHENTICATE structure --------------------------------------------------

type av struct {
	ID    uint16 `json:"id"`
	Value vf.Hex `json:"value"`
}
type chalCase struct {
	Flags           uint32 `json:"flags"`
	ServerChallenge vf.Hex `json:"server_challenge"`
	TargetName      string `json:"target_name"`
	Pairs           []av   `json:"target_info"`
	HasInfo         bool   `json:"has_info"`
	Version         vf.Hex `json:"version"`
	InfoFirst       bool   `json:"info_first"`
	Gap0            vf.Hex `json:"gap0"`
	Gap1            vf.Hex `json:"gap1"`
	Tail            vf.Hex `json:"tail"`
	// by how much the MaxLen slot of each descriptor exceeds Len (MS-NLMP 2.2.1.2: MaxLen "SHOULD be set to"
	// Len "and MUST be ignored on receipt"); Len+extra is capped at 65535 and may run past the message
	NameMaxExtra int `json:"name_maxlen_extra,omitempty"`
	InfoMaxExtra int `json:"info_maxlen_extra,omitempty"`
	// identity for the AUTHENTICATE built from this challenge
	User, Password, Domain, Workstation string
}

func (c chalCase) build() (*nlmp.Challenge, []nlmp.AvPair) {
	var pairs []nlmp.AvPair
	for _, p := range c.Pairs {
		pairs = append(pairs, nlmp.AvPair{ID: p.ID, Value: p.Value})
	}
	ch := &nlmp.Challenge{Flags: c.Flags, InfoFirst: c.InfoFirst, Gap0: c.Gap0, Gap1: c.Gap1, Tail: c.Tail}
	copy(ch.ServerChallenge[:], c.ServerChallenge)
	copy(ch.Version[:], c.Version)
	if c.Flags&nlmp.FlagUnicode != 0 {
		ch.TargetName = refcrypto.UTF16LE(c.TargetName)
	} else {
		ch.TargetName = []byte(c.TargetName)
	}
	if c.HasInfo {
		ch.TargetInfo = nlmp.EncodeAvPairs(pairs)
	}
	return ch, pairs
}

// wire is the CHALLENGE message of the case: the reference builder's layout with the MaxLen slots raised.
func (c chalCase) wire() (*nlmp.Challenge, []nlmp.AvPair, []byte) {
	ch, pairs := c.build()
	b := ch.Build()
	for _, d := range []struct{ at, extra int }{{12, c.NameMaxExtra}, {40, c.InfoMaxExtra}} {
		if d.extra > 0 {
			l := int(b[d.at]) | int(b[d.at+1])<<8
			m := min(l+d.extra, 65535)
			b[d.at+2], b[d.at+3] = byte(m), byte(m>>8)
		}
	}
	return ch, pairs, b
}

func checkChallenge(c chalCase) []vf.Finding {
	ch, pairs, wire := c.wire()
	got, err := ntlm.ParseChallengeMessage(append([]byte{}, wire...))
	if err != nil || got == nil {
		return []vf.Finding{vf.F("ntlm.ParseChallengeMessage", "well-formed-challenge-rejected", "%v; wire %x", err, wire[:56])}
	}
	var fs []vf.Finding
	if got.NegotiateFlags != c.Flags {
		fs = append(fs, vf.F("ntlm.ParseChallengeMessage", "flags-differ", "got %#x want %#x", got.NegotiateFlags, c.Flags))
	}
	if !bytes.Equal(got.ServerChallenge[:], c.ServerChallenge) {
		fs = append(fs, vf.F("ntlm.ParseChallengeMessage", "server-challenge-differs", "got %x want %x", got.ServerChallenge, []byte(c.ServerChallenge)))
	}
	// MS-NLMP 2.2.1.2: without NTLMSSP_REQUEST_TARGET the TargetNameFields, and without
	// NTLMSSP_NEGOTIATE_TARGET_INFO the TargetInfoFields, "MUST be ignored on receipt"; a parser may hand back
	// what they point at or nothing. Such messages are still generated (they must parse), the two fields are
	// judged only under their flag, as Version is.
	judgeName, judgeInfo := c.Flags&nlmp.FlagReqTarget != 0, c.Flags&nlmp.FlagTargetInf != 0
	if judgeName && !bytes.Equal(got.TargetName, ch.TargetName) {
		fs = append(fs, vf.F("ntlm.ParseChallengeMessage", "target-name-differs", "got %x want %x (info first %v, gaps %d/%d)", got.TargetName, ch.TargetName, c.InfoFirst, len(c.Gap0), len(c.Gap1)))
	}
	if judgeInfo && !bytes.Equal(got.TargetInfo, ch.TargetInfo) {
		fs = append(fs, vf.F("ntlm.ParseChallengeMessage", "target-info-differs", "got %d bytes want %d (info first %v, gaps %d/%d)", len(got.TargetInfo), len(ch.TargetInfo), c.InfoFirst, len(c.Gap0), len(c.Gap1)))
	}
	if c.Flags&nlmp.FlagVersion != 0 {
		v, _ := got.Version.Marshal()
		if !bytes.Equal(v, c.Version) {
			fs = append(fs, vf.F("ntlm.ParseChallengeMessage", "version-differs", "got %x want %x", v, []byte(c.Version)))
		}
	}
	if c.HasInfo {
		// ParseTargetInfo is judged on every well-formed list: on the parsed message's where that is judged,
		// on the list as sent otherwise
		info := ch.TargetInfo
		if judgeInfo {
			info = got.TargetInfo
		}
		m, err := ntlm.ParseTargetInfo(append([]byte{}, info...))
		if err != nil {
			fs = append(fs, vf.F("ntlm.ParseTargetInfo", "well-formed-list-rejected", "%v", err))
		} else {
			if len(m) != len(pairs) {
				fs = append(fs, vf.F("ntlm.ParseTargetInfo", "pair-count-differs", "got %d want %d", len(m), len(pairs)))
			}
			for _, p := range pairs {
				if v, ok := m[p.ID]; !ok || !bytes.Equal(v, p.Value) {
					fs = append(fs, vf.F("ntlm.ParseTargetInfo", "pair-value-differs", "id %d: got %x (present %v) want %x", p.ID, v, ok, p.Value))
				}
			}
		}
	}
	return fs
}

var layoutFlags = []uint32{nlmp.FlagTargetInf, nlmp.FlagVersion, nlmp.FlagExtSec, nlmp.FlagReqTarget, nlmp.FlagNTLM, 0x00010000, 0x00020000, 0x20000000, 0x80000000, 0x00008000}

func genChal(t *rapid.T) chalCase {
	c := chalCase{ServerChallenge: rapid.SliceOfN(rapid.Byte(), 8, 8).Draw(t, "srv"), Version: rapid.SliceOfN(rapid.Byte(), 8, 8).Draw(t, "ver")}
	unicode := rapid.Bool().Draw(t, "unicode")
	if unicode {
		c.Flags |= nlmp.FlagUnicode
	} else {
		c.Flags |= nlmp.FlagOEM
	}
	for _, f := range layoutFlags {
		if rapid.Bool().Draw(t, "flag") {
			c.Flags |= f
		}
	}
	if rapid.IntRange(0, 9).Draw(t, "rawflags") == 0 {
		c.Flags = rapid.Uint32().Draw(t, "flagsRaw")
		unicode = c.Flags&nlmp.FlagUnicode != 0
	}
	c.TargetName = genName(t, "target", unicode)
	c.HasInfo = rapid.IntRange(0, 4).Draw(t, "hasInfo") != 0
	if c.HasInfo {
		ids := rapid.Permutation([]uint16{1, 2, 3, 4, 5, 6, 7, 8, 9, 10}).Draw(t, "ids")
		for i, n := 0, rapid.IntRange(0, 8).Draw(t, "npairs"); i < n; i++ {
			var l int
			if rapid.IntRange(0, 9).Draw(t, "big") == 0 {
				l = rapid.IntRange(100, 300).Draw(t, "avBig")
			} else {
				l = rapid.IntRange(0, 24).Draw(t, "avLen")
			}
			c.Pairs = append(c.Pairs, av{ids[i], rapid.SliceOfN(rapid.Byte(), l, l).Draw(t, "avVal")})
		}
	}
	c.InfoFirst = rapid.Bool().Draw(t, "infoFirst")
	gap := func(label string) vf.Hex {
		if rapid.IntRange(0, 2).Draw(t, label+"Has") != 0 {
			return nil
		}
		n := rapid.IntRange(1, 9).Draw(t, label+"Len")
		return rapid.SliceOfN(rapid.Byte(), n, n).Draw(t, label)
	}
	c.Gap0, c.Gap1, c.Tail = gap("gap0"), gap("gap1"), gap("tail")
	maxExtra := func(label string) int {
		switch rapid.IntRange(0, 5).Draw(t, label+"Class") {
		case 3:
			return rapid.IntRange(1, 2).Draw(t, label)
		case 4:
			return rapid.IntRange(1, 64).Draw(t, label)
		case 5:
			return rapid.IntRange(1, 65535).Draw(t, label)
		}
		return 0
	}
	c.NameMaxExtra, c.InfoMaxExtra = maxExtra("nameMaxExtra"), maxExtra("infoMaxExtra")
	c.User, c.Domain, c.Workstation = genName(t, "user", unicode), genName(t, "domain", unicode), genName(t, "ws", unicode)
	c.Password = alpha.String(t, "pw", 12, "")
	return c
}

func chalNontrivial(c chalCase) bool {
	return len(c.Pairs) >= 2 || alpha.HasNonASCII(c.TargetName) || (c.InfoFirst && c.TargetName != "")
}

func TestChallengeParse(t *testing.T) {
	s := vf.Begin(t, P, "challenge-parse")
	vf.Rapid(s, vf.N(8000, 150000), genChal, checkChallenge, chalNontrivial)
}

// noCharset: the CHALLENGE negotiates neither character set (only the raw flag words do that). A client may
// refuse to answer it (MS-NLMP 3.1.5.1.2: SEC_E_INVALID_TOKEN); an answer it does build is judged like any other.
func (c chalCase) noCharset() bool { return c.Flags&(nlmp.FlagUnicode|nlmp.FlagOEM) == 0 }

func checkAuthenticate(c chalCase) []vf.Finding {
	_, _, wire := c.wire()
	parsed, err := ntlm.ParseChallengeMessage(wire)
	if err != nil {
		return []vf.Finding{vf.F("ntlm.ParseChallengeMessage", "well-formed-challenge-rejected", "%v", err)}
	}
	msg, err := ntlm.CreateAuthenticateMessage(parsed, c.User, c.Password, c.Domain, c.Workstation)
	if err != nil {
		if c.noCharset() {
			return nil
		}
		return []vf.Finding{vf.F("ntlm.CreateAuthenticateMessage", "error", "%v", err)}
	}
	a, problems := nlmp.ParseAuthenticate(msg)
	var fs []vf.Finding
	for _, p := range problems {
		fs = append(fs, vf.F("ntlm.CreateAuthenticateMessage", "authenticate-structure-invalid", "%s", p))
	}
	if a == nil || len(problems) > 0 {
		return fs
	}
	unicode := c.Flags&nlmp.FlagUnicode != 0
	if (a.Flags&nlmp.FlagUnicode != 0) != unicode {
		fs = append(fs, vf.F("ntlm.CreateAuthenticateMessage", "charset-flag-differs-from-challenge", "flags %#x, challenge unicode %v", a.Flags, unicode))
	}
	for _, f := range []struct {
		fld  nlmp.Field
		name string
		fold bool
	}{{a.Domain, c.Domain, true}, {a.User, c.User, false}, {a.Workstation, c.Workstation, true}} {
		if !sameName(f.fld.Data, f.name, unicode, f.fold) {
			fs = append(fs, vf.F("ntlm.CreateAuthenticateMessage", "name-bytes-differ-from-charset-encoding", "%s: payload %x for %q (unicode %v)", f.fld.Name, f.fld.Data, f.name, unicode))
		}
	}
	if len(msg) < 88 {
		fs = append(fs, vf.F("ntlm.CreateAuthenticateMessage", "header-shorter-than-88", "%d bytes", len(msg)))
	}
	// as for NEGOTIATE, padding bytes outside every descriptor are not judged
	return fs
}

func TestAuthenticateStructure(t *testing.T) {
	s := vf.Begin(t, P, "authenticate-structure")
	vf.Rapid(s, vf.N(6000, 100000), genChal, checkAuthenticate, func(c chalCase) bool {
		return c.User != "" && c.Domain != "" && (alpha.HasNonASCII(c.User+c.Domain+c.Workstation) || len(c.Pairs) >= 1)
	})
}

// ---- SPNEGO --------------------------------------------------------------------------------------

type tokCase struct {
	Len   int   `json:"len"`
	Salt  byte  `json:"salt"`
	State int   `json:"neg_state"`
	Mech  []int `json:"mech_oid"`
}

func token(n int, salt byte) []byte {
	b := make([]byte, n)
	for i := range b {
		b[i] = byte(i*7) ^ salt ^ byte(i>>8)
	}
	return b
}

var spnegoOIDDER = []byte{0x06, 0x06, 0x2b, 0x06, 0x01, 0x05, 0x05, 0x02}

func checkOuter(who string, wire []byte) []vf.Finding {
	tag, content, rest, err := nlmp.DER(wire)
	if err != nil {
		return []vf.Finding{vf.F(who, "outer-der-invalid", "%v; head %x", err, wire[:min(len(wire), 12)])}
	}
	var fs []vf.Finding
	if tag != 0x60 {
		fs = append(fs, vf.F(who, "outer-tag-not-0x60", "%#x", tag))
	}
	if len(rest) != 0 {
		fs = append(fs, vf.F(who, "outer-length-not-remaining-bytes", "%d bytes after the outer element", len(rest)))
	}
	if !bytes.HasPrefix(content, spnegoOIDDER) {
		fs = append(fs, vf.F(who, "spnego-oid-missing", "%x", content[:min(len(content), 10)]))
		return fs
	}
	// the inner element must itself be one well-formed DER element that fills the rest
	if _, _, r2, err := nlmp.DER(content[len(spnegoOIDDER):]); err != nil || len(r2) != 0 {
		fs = append(fs, vf.F(who, "inner-der-invalid", "err %v, %d trailing bytes", err, len(r2)))
	}
	return fs
}

func checkInit(c tokCase) []vf.Finding {
	tok := token(c.Len, c.Salt)
	wire, err := spnego.CreateNegTokenInit(append([]byte{}, tok...))
	if err != nil {
		return []vf.Finding{vf.F("spnego.CreateNegTokenInit", "error", "len %d: %v", c.Len, err)}
	}
	fs := checkOuter("spnego.CreateNegTokenInit", wire)
	got, err := spnego.ExtractNTLMToken(wire)
	if err != nil {
		kind := "wrapped-token-not-extractable"
		if c.Len == 0 {
			kind = "empty-token-not-extractable"
		}
		return append(fs, vf.F("spnego.ExtractNTLMToken", kind, "len %d: %v", c.Len, err))
	}
	if !bytes.Equal(got, tok) {
		fs = append(fs, vf.F("spnego.ExtractNTLMToken", "extracted-token-differs", "len %d: got %d bytes", c.Len, len(got)))
	}
	return fs
}

func checkResp(c tokCase) []vf.Finding {
	tok := token(c.Len, c.Salt)
	mech := asn1.ObjectIdentifier(c.Mech)
	wire, err := spnego.CreateNegTokenResp(asn1.Enumerated(c.State), mech, append([]byte{}, tok...))
	if err != nil {
		return []vf.Finding{vf.F("spnego.CreateNegTokenResp", "error", "len %d: %v", c.Len, err)}
	}
	fs := checkOuter("spnego.CreateNegTokenResp", wire)
	r, err := spnego.ParseNegTokenResp(wire)
	if err != nil || r == nil {
		return append(fs, vf.F("spnego.ParseNegTokenResp", "own-encoding-rejected", "len %d: %v", c.Len, err))
	}
	if int(r.NegState) != c.State {
		fs = append(fs, vf.F("spnego.ParseNegTokenResp", "neg-state-differs", "got %d want %d", r.NegState, c.State))
	}
	if !r.SupportedMech.Equal(mech) && !(len(mech) == 0 && len(r.SupportedMech) == 0) {
		fs = append(fs, vf.F("spnego.ParseNegTokenResp", "mech-differs", "got %v want %v", r.SupportedMech, mech))
	}
	if !bytes.Equal(r.ResponseToken, tok) {
		fs = append(fs, vf.F("spnego.ParseNegTokenResp", "response-token-differs", "len %d: got %d bytes", c.Len, len(r.ResponseToken)))
	}
	if c.Len > 0 {
		got, err := spnego.ExtractNTLMToken(wire)
		if err != nil || !bytes.Equal(got, tok) {
			fs = append(fs, vf.F("spnego.ExtractNTLMToken", "extracted-token-differs", "resp len %d: got %d bytes err %v", c.Len, len(got), err))
		}
	}
	return fs
}

var mechs = [][]int{{1, 3, 6, 1, 4, 1, 311, 2, 2, 10}, {1, 2, 840, 113554, 1, 2, 2}, {1, 3, 6, 1, 5, 5, 2}}

func TestSpnegoLengthsExhaustive(t *testing.T) {
	s := vf.Begin(t, P, "spnego-lengths-exhaustive")
	s.SetExhaustive()
	lo, hi := vf.Size(300, 700), 0
	_ = hi
	s.Note("token lengths 0..%d, every length within 40 of 65535 and of the points where nested DER lengths change form (thorough: 0..70000 around each boundary step 1)", lo)
	vf.Enum(s, func(yield func(tokCase)) {
		for n := 0; n <= lo; n++ {
			yield(tokCase{n, byte(n), n % 4, mechs[n%3]})
		}
		for _, c := range []int{65535, 65536 - 30, 16384, 32768} {
			w := vf.Size(40, 120)
			for d := -w; d <= w; d++ {
				if c+d > lo {
					yield(tokCase{c + d, byte(d), (c + d) % 4, mechs[(c+d)%3]})
				}
			}
		}
		yield(tokCase{70000, 1, 1, mechs[0]})
		yield(tokCase{200000, 2, 0, mechs[0]})
	}, func(c tokCase) []vf.Finding { return append(checkInit(c), checkResp(c)...) }, func(c tokCase) bool { return c.Len >= 128 })
}

func TestSpnegoRandom(t *testing.T) {
	s := vf.Begin(t, P, "spnego-random")
	vf.Rapid(s, vf.N(3000, 40000), func(t *rapid.T) tokCase {
		var n int
		switch rapid.IntRange(0, 3).Draw(t, "lenClass") {
		case 0:
			n = rapid.IntRange(0, 300).Draw(t, "small")
		case 1:
			n = rapid.IntRange(65400, 65700).Draw(t, "edge")
		default:
			n = rapid.IntRange(0, 80000).Draw(t, "len")
		}
		return tokCase{n, rapid.Byte().Draw(t, "salt"), rapid.IntRange(0, 3).Draw(t, "state"), mechs[rapid.IntRange(0, 2).Draw(t, "mech")]}
	}, func(c tokCase) []vf.Finding { return append(checkInit(c), checkResp(c)...) }, func(c tokCase) bool { return c.Len >= 128 })
}

// ---- end to end: ProcessChallengeToken ----------------------------------------------------------------

// identity is what an AuthContext is created with.
type identity struct {
	User, Password, Domain, Workstation string
}

// processOnce hands the CHALLENGE of c, wrapped in a NegTokenResp, to ctx and judges the AUTHENTICATE token
// that comes back against that challenge and the identity the context was created with. pre is put in front
// of the finding kinds.
//
// A context may refuse a CHALLENGE that negotiates no character set (see noCharset): that is no finding, and
// *refused (if given) tells the caller that no AUTHENTICATE came back.
func processOnce(ctx *spnego.AuthContext, c chalCase, id identity, pre string, refused *bool) []vf.Finding {
	const who = "AuthContext.ProcessChallengeToken"
	_, _, inner := c.wire()
	wrapped, err := spnego.CreateNegTokenResp(spnego.AcceptIncomplete, spnego.NtlmOID, inner)
	if err != nil {
		return []vf.Finding{vf.F("spnego.CreateNegTokenResp", "error", "%v", err)}
	}
	out, err := ctx.ProcessChallengeToken(wrapped)
	if err != nil {
		if c.noCharset() {
			if refused != nil {
				*refused = true
			}
			return nil
		}
		return []vf.Finding{vf.F(who, pre+"well-formed-challenge-token-rejected", "%v", err)}
	}
	var fs []vf.Finding
	for _, f := range checkOuter(who, out) {
		f.Kind = pre + f.Kind
		fs = append(fs, f)
	}
	auth, err := spnego.ExtractNTLMToken(out)
	if err != nil {
		return append(fs, vf.F(who, pre+"output-token-not-extractable", "%v", err))
	}
	a, problems := nlmp.ParseAuthenticate(auth)
	for _, p := range problems {
		fs = append(fs, vf.F(who, pre+"authenticate-structure-invalid", "%s", p))
	}
	if a == nil || len(problems) > 0 {
		return fs
	}
	if ctx.NTLMChallenge == nil || !bytes.Equal(ctx.NTLMChallenge.ServerChallenge[:], c.ServerChallenge) {
		fs = append(fs, vf.F(who, pre+"challenge-not-recorded", "%v, processed server challenge %x", ctx.NTLMChallenge, []byte(c.ServerChallenge)))
	}
	unicode := c.Flags&nlmp.FlagUnicode != 0
	for _, f := range []struct {
		fld  nlmp.Field
		name string
		fold bool
	}{{a.Domain, id.Domain, true}, {a.User, id.User, false}, {a.Workstation, id.Workstation, true}} {
		if !sameName(f.fld.Data, f.name, unicode, f.fold) {
			fs = append(fs, vf.F(who, pre+"name-bytes-differ-from-charset-encoding", "%s: payload %x for %q (unicode %v)", f.fld.Name, f.fld.Data, f.name, unicode))
		}
	}
	// the response answers the challenge that was processed
	if c.Flags&nlmp.FlagExtSec != 0 {
		if unicode || isASCII(id.User+id.Domain) {
			user, domain := string(a.User.Data), string(a.Domain.Data)
			if unicode {
				user, domain = decodeUTF16(a.User.Data), decodeUTF16(a.Domain.Data)
			}
			for _, p := range nlmp.VerifyNTLMv2(refcrypto.NT(id.Password), user, domain, c.ServerChallenge, a.NT.Data, nil) {
				fs = append(fs, vf.F(who, pre+"v2-response-does-not-verify", "server challenge %x: %s", []byte(c.ServerChallenge), p))
			}
		}
	} else {
		nt := refcrypto.NT(id.Password)
		if want := refcrypto.DESL(nt[:], c.ServerChallenge); !bytes.Equal(a.NT.Data, want) {
			fs = append(fs, vf.F(who, pre+"v1-response-does-not-verify", "server challenge %x: NtChallengeResponse %x, DESL(NT hash, challenge) = %x", []byte(c.ServerChallenge), a.NT.Data, want))
		}
	}
	return fs
}

func (c chalCase) identity() identity { return identity{c.User, c.Password, c.Domain, c.Workstation} }

func checkProcess(c chalCase) []vf.Finding {
	ctx := spnego.NewAuthContext(spnego.AuthTypeNTLM, c.Domain, c.User, c.Password, c.Workstation, c.Flags&nlmp.FlagUnicode != 0)
	return processOnce(ctx, c, c.identity(), "", nil)
}

// One context, two challenges in a row (a server may answer a retried session setup with a fresh challenge):
// the second AUTHENTICATE answers the second challenge and is as well-formed as the first.
type twiceCase struct {
	First  chalCase `json:"first"`  // also supplies the identity of the context
	Second chalCase `json:"second"` // its identity fields are not used
}

func checkProcessTwice(c twiceCase) []vf.Finding {
	ctx := spnego.NewAuthContext(spnego.AuthTypeNTLM, c.First.Domain, c.First.User, c.First.Password, c.First.Workstation, c.First.Flags&nlmp.FlagUnicode != 0)
	var refused bool
	if fs := processOnce(ctx, c.First, c.First.identity(), "", &refused); len(fs) > 0 || refused {
		// a context that refused its first challenge has answered nothing: there is no "second" answer to judge
		return fs
	}
	return processOnce(ctx, c.Second, c.First.identity(), "reused-context-", nil)
}

func decodeUTF16(b []byte) string {
	var rs []rune
	for i := 0; i+1 < len(b); i += 2 {
		u := rune(b[i]) | rune(b[i+1])<<8
		if u >= 0xD800 && u < 0xDC00 && i+3 < len(b) {
			lo := rune(b[i+2]) | rune(b[i+3])<<8
			rs = append(rs, 0x10000+(u-0xD800)<<10+(lo-0xDC00))
			i += 2
			continue
		}
		rs = append(rs, u)
	}
	return string(rs)
}

func TestProcessChallenge(t *testing.T) {
	s := vf.Begin(t, P, "process-challenge")
	vf.Rapid(s, vf.N(3000, 50000), genChal, checkProcess, chalNontrivial)
}

func TestProcessChallengeTwice(t *testing.T) {
	s := vf.Begin(t, P, "process-challenge-twice")
	vf.Rapid(s, vf.N(2000, 40000), func(t *rapid.T) twiceCase {
		c := twiceCase{First: genChal(t), Second: genChal(t)}
		c.Second.User, c.Second.Password, c.Second.Domain, c.Second.Workstation = "", "", "", ""
		return c
	}, checkProcessTwice, func(c twiceCase) bool { return !bytes.Equal(c.First.ServerChallenge, c.Second.ServerChallenge) })
}

var _ = fmt.Sprintf
