// Package c14: key-credential blobs round-trip and their integrity hash detects tampering.
package c14

import (
	"bytes"
	"crypto/sha256"
	"encoding/base64"
	"encoding/binary"
	"encoding/hex"
	"fmt"
	"sort"
	"strings"
	"testing"
	"unicode"

	"pgregory.net/rapid"

	"github.com/TheManticoreProject/Manticore/windows/guid"
	keycredentiallink "github.com/TheManticoreProject/Manticore/windows/keycredential"
	kccrypto "github.com/TheManticoreProject/Manticore/windows/keycredential/crypto"
	"github.com/TheManticoreProject/Manticore/windows/keycredential/key"
	kcutils "github.com/TheManticoreProject/Manticore/windows/keycredential/utils"

	"manticoreverif/ref/alpha"
	"manticoreverif/vf"
)

const P = "C14"

type kcCase struct {
	Version  uint32 `json:"version"`
	Exponent uint32 `json:"exponent"`
	// width in bytes of the big-endian exponent field in the blob the harness writes (foreign blobs:
	// BCRYPT_RSAKEY_BLOB has cbPublicExp for it, Windows writes 65537 in three bytes); 0: the width the
	// library's own serialisation of the case uses
	ExpWidth  int    `json:"foreign_exponent_width,omitempty"`
	Modulus   vf.Hex `json:"modulus"`
	Prime1    vf.Hex `json:"prime1,omitempty"`
	Prime2    vf.Hex `json:"prime2,omitempty"`
	KeySize   uint32 `json:"key_size"`
	Device    vf.Hex `json:"device_guid"`
	LastLogon uint64 `json:"last_logon_ticks"`
	Creation  uint64 `json:"creation_ticks"`
	Usage     uint8  `json:"usage"`  // 0xFF: leave the constructor's default
	Source    int    `json:"source"` // -1: leave the default
	// optional second, string-valued KeyUsage entry (LegacyUsage); at least 2 bytes, because a
	// one-byte KeyUsage entry is by definition the numeric usage
	Legacy vf.Hex `json:"legacy_usage,omitempty"`
	// CustomKeyInformation as it stands in the blob (MS-ADTS 2.2.20.4: version, flags, then optionally
	// volume type, supports-notification, FEK key version, strength (LE32), 10 reserved bytes, extended
	// data); empty: the constructor's {version 1, flags 0}
	CKI vf.Hex `json:"custom_key_information,omitempty"`
}

var defaultCKI = []byte{1, 0}

func (c kcCase) cki() []byte {
	if len(c.CKI) > 0 {
		return c.CKI
	}
	return defaultCKI
}

// ckiStruct sets the library's structure field by field from the MS-ADTS layout (the harness's own
// reading of the bytes, not the library's parser).
func ckiStruct(raw []byte) key.CustomKeyInformation {
	k := key.CustomKeyInformation{Version: int(raw[0]), RawBytesSize: uint32(len(raw))}
	k.Flags.Value = raw[1]
	if len(raw) >= 3 {
		k.VolumeType.Value = raw[2]
	}
	if len(raw) >= 4 {
		k.SupportsNotification = raw[3] != 0
	}
	if len(raw) >= 5 {
		k.FekKeyVersion = raw[4]
	}
	if len(raw) >= 9 {
		k.Strength.Value = binary.LittleEndian.Uint32(raw[5:9])
	}
	if len(raw) >= 19 {
		k.Reserved = append([]byte{}, raw[9:19]...)
	}
	if len(raw) > 19 {
		k.EncodedExtendedCKI = append([]byte{}, raw[19:]...)
	}
	return k
}

// compareCKI: the parsed structure against the bytes it was parsed from.
func compareCKI(who string, got key.CustomKeyInformation, raw []byte) []vf.Finding {
	var fs []vf.Finding
	if out := got.ToBytes(); !bytes.Equal(out, raw) {
		fs = append(fs, vf.F(who, "custom-key-information-not-preserved", "%x re-serialises as %x", raw, out))
	}
	want := ckiStruct(raw)
	bad := func(field string, g, w any) {
		fs = append(fs, vf.F(who, "custom-key-information-field-differs", "%s of %x: got %v want %v", field, raw, g, w))
	}
	if got.Version != want.Version {
		bad("Version", got.Version, want.Version)
	}
	if got.Flags.Value != want.Flags.Value {
		bad("Flags", got.Flags.Value, want.Flags.Value)
	}
	if len(raw) >= 3 && got.VolumeType.Value != want.VolumeType.Value {
		bad("VolumeType", got.VolumeType.Value, want.VolumeType.Value)
	}
	if len(raw) >= 4 && got.SupportsNotification != want.SupportsNotification {
		bad("SupportsNotification", got.SupportsNotification, want.SupportsNotification)
	}
	if len(raw) >= 5 && got.FekKeyVersion != want.FekKeyVersion {
		bad("FekKeyVersion", got.FekKeyVersion, want.FekKeyVersion)
	}
	if len(raw) >= 9 && got.Strength.Value != want.Strength.Value {
		bad("Strength", got.Strength.Value, want.Strength.Value)
	}
	if len(raw) >= 19 && !bytes.Equal(got.Reserved, want.Reserved) {
		bad("Reserved", fmt.Sprintf("%x", got.Reserved), fmt.Sprintf("%x", want.Reserved))
	}
	if len(raw) > 19 && !bytes.Equal(got.EncodedExtendedCKI, want.EncodedExtendedCKI) {
		bad("EncodedExtendedCKI", fmt.Sprintf("%x", got.EncodedExtendedCKI), fmt.Sprintf("%x", want.EncodedExtendedCKI))
	}
	return fs
}

// tracked is a caller-owned input buffer with sentinel-filled spare capacity: a decoder may keep
// referring to it, it must not change it.
type tracked struct{ buf, orig []byte }

func track(in []byte) *tracked {
	full := make([]byte, len(in)+8)
	copy(full, in)
	for i := len(in); i < len(full); i++ {
		full[i] = 0xA5
	}
	return &tracked{buf: full[:len(in):len(full)], orig: append([]byte{}, full...)}
}

func (k *tracked) untouched(subject string, fs *[]vf.Finding) {
	if now := k.buf[:cap(k.buf)]; !bytes.Equal(now, k.orig) {
		d := 0
		for d < len(now) && now[d] == k.orig[d] {
			d++
		}
		*fs = append(*fs, vf.F(subject, "callee-modifies-callers-input", "the %d-byte input differs from what was passed, first at offset %d: %#x was %#x", len(k.buf), d, now[d], k.orig[d]))
	}
}

func (c kcCase) material() kccrypto.RSAKeyMaterial {
	return kccrypto.RSAKeyMaterial{Exponent: c.Exponent, Modulus: append([]byte{}, c.Modulus...), Prime1: append([]byte{}, c.Prime1...), Prime2: append([]byte{}, c.Prime2...), KeySize: c.KeySize}
}

func (c kcCase) build() (*keycredentiallink.KeyCredential, error) {
	ver := key.KeyCredentialVersion{Value: c.Version}
	mat := c.material()
	id := kcutils.ComputeKeyIdentifier(mat.ToBytes(), ver)
	var dev guid.GUID
	dev.FromRawBytes(append([]byte{}, c.Device...))
	kc := keycredentiallink.NewKeyCredential(ver, id, mat, dev, kcutils.NewDateTime(c.LastLogon), kcutils.NewDateTime(c.Creation))
	if c.Usage != 0xFF || c.Source >= 0 || len(c.Legacy) > 0 || len(c.CKI) > 0 {
		if c.Usage != 0xFF {
			kc.Usage = key.KeyUsage{Value: c.Usage}
		}
		if c.Source >= 0 {
			kc.Source = key.KeySource(c.Source)
		}
		if len(c.Legacy) > 0 {
			kc.LegacyUsage = string(c.Legacy)
		}
		if len(c.CKI) > 0 {
			kc.CustomKeyInfo = ckiStruct(c.CKI)
		}
		kc.RawBytes = nil
		kc.KeyHash = nil
		kc.KeyHash = kc.ComputeKeyHash()
	}
	return kc, nil
}

// walk reads the entry framing independently: version (4 bytes LE), then
// entries of (length uint16 LE, type byte, value).
type entry struct {
	Type  byte
	Off   int // offset of the entry header
	Value []byte
}

func walk(b []byte) (ver uint32, es []entry, err error) {
	if len(b) < 4 {
		return 0, nil, fmt.Errorf("blob shorter than the version field")
	}
	ver = binary.LittleEndian.Uint32(b)
	off := 4
	for off < len(b) {
		if off+3 > len(b) {
			return ver, es, fmt.Errorf("truncated entry header at %d", off)
		}
		l := int(binary.LittleEndian.Uint16(b[off:]))
		if off+3+l > len(b) {
			return ver, es, fmt.Errorf("entry at %d: length %d beyond the blob", off, l)
		}
		es = append(es, entry{b[off+2], off, b[off+3 : off+3+l]})
		off += 3 + l
	}
	return ver, es, nil
}

func hashRegion(b []byte) (start int, stored []byte, ok bool) {
	_, es, err := walk(b)
	if err != nil {
		return 0, nil, false
	}
	for _, e := range es {
		if e.Type == 0x02 {
			return e.Off + 3 + len(e.Value), e.Value, true
		}
	}
	return 0, nil, false
}

// unordered: the index of the first entry whose identifier is smaller than its predecessor's (MS-ADTS
// 2.2.20.2 wants the entries sorted by identifier), -1 if there is none. Entries with the same
// identifier (the numeric and the string-valued KeyUsage) may stand in either order.
func unordered(es []entry) int {
	for i := 1; i < len(es); i++ {
		if es[i].Type < es[i-1].Type {
			return i
		}
	}
	return -1
}

func sameMultiset(a, b [][]byte) bool {
	if len(a) != len(b) {
		return false
	}
	key := func(in [][]byte) []string {
		out := make([]string, len(in))
		for i, v := range in {
			out[i] = string(v)
		}
		sort.Strings(out)
		return out
	}
	ka, kb := key(a), key(b)
	for i := range ka {
		if ka[i] != kb[i] {
			return false
		}
	}
	return true
}

// sameModuloTies compares a blob written by the library with the harness's blob of the same content
// without fixing the relative order of entries that carry the same identifier: either the bytes are
// equal, or the version is, the library's entries are in non-decreasing identifier order, every
// identifier has the same values (as a multiset) in both, and - because the key hash covers the
// entries after it in the order they stand in - the library's key hash entry is the SHA-256 of what
// follows it in the library's blob. carried: the library's blob is the re-serialisation of a credential
// parsed from a harness blob, whose KeyHash field ToBytes may write back as parsed, i.e. the hash
// that blob stores; that value (nil: none) is accepted as well then. "" if the blobs agree, otherwise
// what differs.
func sameModuloTies(lib, ref []byte, carried []byte) string {
	if bytes.Equal(lib, ref) {
		return ""
	}
	d := diffAt(lib, ref)
	first := fmt.Sprintf("%d vs %d bytes, first difference at %d: %x vs %x", len(lib), len(ref), d, lib[min(d, len(lib)):min(d+4, len(lib))], ref[min(d, len(ref)):min(d+4, len(ref))])
	lv, les, err := walk(lib)
	if err != nil {
		return first + "; " + err.Error()
	}
	rv, res, err := walk(ref)
	if err != nil {
		return first + "; harness blob: " + err.Error()
	}
	if lv != rv || len(les) != len(res) {
		return first
	}
	if at := unordered(les); at >= 0 {
		return first + fmt.Sprintf("; entry %d (identifier %#x) follows identifier %#x", at, les[at].Type, les[at-1].Type)
	}
	byID := func(es []entry) map[byte][][]byte {
		m := map[byte][][]byte{}
		for _, e := range es {
			if e.Type != 0x02 {
				m[e.Type] = append(m[e.Type], e.Value)
			}
		}
		return m
	}
	lm, rm := byID(les), byID(res)
	if len(lm) != len(rm) {
		return first
	}
	for id, vals := range rm {
		if !sameMultiset(lm[id], vals) {
			return first + fmt.Sprintf("; the entries with identifier %#x differ", id)
		}
	}
	start, stored, ok := hashRegion(lib)
	_, _, refHas := hashRegion(ref)
	if ok != refHas {
		return first
	}
	if ok {
		if want := sha256.Sum256(lib[start:]); !bytes.Equal(stored, want[:]) && !(carried != nil && bytes.Equal(stored, carried)) {
			return first + "; the key hash is not the SHA-256 of the entries after it"
		}
	}
	return ""
}

// identifierBytes: the key identifier a credential holds, in binary. The Identifier field is text, and
// how the 32 bytes are presented there (letter case of the hexadecimal form, base64 with or without
// padding) is the library's choice: the value is what is compared. The harness reads hexadecimal in
// either case and base64 with or without padding itself; a text it cannot read is given to the
// library's own ConvertToBinaryIdentifier.
func identifierBytes(text string, ver key.KeyCredentialVersion) ([]byte, error) {
	if b, err := hex.DecodeString(text); err == nil && len(b) == sha256.Size {
		return b, nil
	}
	if b, err := base64.RawStdEncoding.DecodeString(strings.TrimRight(text, "=")); err == nil && len(b) == sha256.Size {
		return b, nil
	}
	return kcutils.ConvertToBinaryIdentifier(text, ver)
}

// materialEntry: the key material entry (identifier 0x03) as it stands in a blob.
func materialEntry(es []entry) []byte {
	for _, e := range es {
		if e.Type == 0x03 {
			return e.Value
		}
	}
	return nil
}

// compareParsed: every field the statement lists, on a credential parsed from a blob of case c.
func compareParsed(back *keycredentiallink.KeyCredential, c kcCase, wantID []byte, wantUsage uint8, wantSource key.KeySource) []vf.Finding {
	var fs []vf.Finding
	if back.Version.Value != c.Version {
		fs = append(fs, vf.F("KeyCredential.FromBytes", "version-not-preserved", "%#x want %#x", back.Version.Value, c.Version))
	}
	if got, err := identifierBytes(back.Identifier, back.Version); err != nil || !bytes.Equal(got, wantID) {
		fs = append(fs, vf.F("KeyCredential.FromBytes", "identifier-not-preserved", "%q is %x (%v) want %x, the SHA-256 of the key material", back.Identifier, got, err, wantID))
	}
	m := back.RawKeyMaterial
	if m.Exponent != c.Exponent || !bytes.Equal(m.Modulus, c.Modulus) || !bytes.Equal(m.Prime1, c.Prime1) || !bytes.Equal(m.Prime2, c.Prime2) || m.KeySize != c.KeySize {
		fs = append(fs, vf.F("KeyCredential.FromBytes", "key-material-not-preserved", "exp %d/%d modulus %d/%d bytes primes %d,%d/%d,%d keysize %d/%d", m.Exponent, c.Exponent, len(m.Modulus), len(c.Modulus), len(m.Prime1), len(m.Prime2), len(c.Prime1), len(c.Prime2), m.KeySize, c.KeySize))
	}
	if back.Usage.Value != wantUsage {
		fs = append(fs, vf.F("KeyCredential.FromBytes", "usage-not-preserved", "%d want %d", back.Usage.Value, wantUsage))
	}
	if back.LegacyUsage != string(c.Legacy) {
		fs = append(fs, vf.F("KeyCredential.FromBytes", "legacy-usage-not-preserved", "%q want %q", back.LegacyUsage, string(c.Legacy)))
	}
	if back.Source != wantSource {
		fs = append(fs, vf.F("KeyCredential.FromBytes", "source-not-preserved", "%d want %d", back.Source, wantSource))
	}
	if !bytes.Equal(back.DeviceId.ToBytes(), c.Device) {
		fs = append(fs, vf.F("KeyCredential.FromBytes", "device-id-not-preserved", "%x want %x", back.DeviceId.ToBytes(), []byte(c.Device)))
	}
	if back.LastLogonTime.ToTicks() != c.LastLogon || back.CreationTime.ToTicks() != c.Creation {
		fs = append(fs, vf.F("KeyCredential.FromBytes", "timestamps-not-preserved", "%d,%d want %d,%d", back.LastLogonTime.ToTicks(), back.CreationTime.ToTicks(), c.LastLogon, c.Creation))
	}
	if !back.LastLogonTime.Time.Equal(kcutils.NewDateTime(c.LastLogon).Time) || !back.CreationTime.Time.Equal(kcutils.NewDateTime(c.Creation).Time) {
		fs = append(fs, vf.F("KeyCredential.FromBytes", "timestamps-not-preserved", "time values differ"))
	}
	fs = append(fs, compareCKI("KeyCredential.FromBytes", back.CustomKeyInfo, c.cki())...)
	return fs
}

func checkBlob(c kcCase) []vf.Finding {
	kc, _ := c.build()
	blob, err := kc.ToBytes()
	if err != nil {
		return []vf.Finding{vf.F("KeyCredential.ToBytes", "error", "%v", err)}
	}
	var fs []vf.Finding
	// independent framing + integrity
	ver, es, err := walk(blob)
	if err != nil {
		return []vf.Finding{vf.F("KeyCredential.ToBytes", "entry-framing-invalid", "%v", err)}
	}
	if ver != c.Version {
		fs = append(fs, vf.F("KeyCredential.ToBytes", "version-field-differs", "%#x want %#x", ver, c.Version))
	}
	start, stored, ok := hashRegion(blob)
	if !ok {
		fs = append(fs, vf.F("KeyCredential.ToBytes", "no-keyhash-entry", "%d entries", len(es)))
	} else if want := sha256.Sum256(blob[start:]); !bytes.Equal(stored, want[:]) {
		fs = append(fs, vf.F("KeyCredential.ToBytes", "stored-hash-is-not-sha256-of-following-entries", "stored %x computed %x", stored, want))
	}
	if !kc.CheckIntegrity() {
		fs = append(fs, vf.F("KeyCredential.CheckIntegrity", "fresh-credential-fails-own-check", ""))
	}
	// the optional entries as they stand in the blob
	var usageEntries [][]byte
	var ckiEntry []byte
	for _, e := range es {
		switch e.Type {
		case 0x04:
			usageEntries = append(usageEntries, e.Value)
		case 0x07:
			ckiEntry = e.Value
		}
	}
	if at := unordered(es); at >= 0 {
		fs = append(fs, vf.F("KeyCredential.ToBytes", "entries-not-in-identifier-order", "entry %d (identifier %#x) follows identifier %#x", at, es[at].Type, es[at-1].Type))
	}
	// the two KeyUsage entries carry the same identifier: which of them comes first is the writer's choice
	wantUsage := [][]byte{{kc.Usage.Value}}
	if len(c.Legacy) > 0 {
		wantUsage = append(wantUsage, c.Legacy)
	}
	if !sameMultiset(usageEntries, wantUsage) {
		fs = append(fs, vf.F("KeyCredential.ToBytes", "key-usage-entries-differ", "blob has %x want %x (in either order)", usageEntries, wantUsage))
	}
	if !bytes.Equal(ckiEntry, c.cki()) {
		fs = append(fs, vf.F("KeyCredential.ToBytes", "custom-key-information-entry-differs", "blob has %x want %x", ckiEntry, c.cki()))
	}
	// parse back
	var back keycredentiallink.KeyCredential
	arg := track(blob)
	err = back.FromBytes(arg.buf)
	arg.untouched("KeyCredential.FromBytes", &fs)
	if err != nil {
		return append(fs, vf.F("KeyCredential.FromBytes", "own-blob-rejected", "%v", err))
	}
	// the identifier the credential was built with is the SHA-256 of its key material, which is what the
	// blob carries as entry 0x03
	wantID := sha256.Sum256(materialEntry(es))
	if given, err := identifierBytes(kc.Identifier, kc.Version); err != nil || !bytes.Equal(given, wantID[:]) {
		fs = append(fs, vf.F("ComputeKeyIdentifier", "identifier-is-not-sha256-of-key-material", "%q is %x (%v), the key material in the blob hashes to %x", kc.Identifier, given, err, wantID))
	}
	fs = append(fs, compareParsed(&back, c, wantID[:], kc.Usage.Value, kc.Source)...)
	if !back.CheckIntegrity() {
		fs = append(fs, vf.F("KeyCredential.CheckIntegrity", "parsed-credential-fails-check", ""))
	}
	again, err := back.ToBytes()
	if err != nil || !bytes.Equal(again, blob) {
		d := 0
		for d < len(again) && d < len(blob) && again[d] == blob[d] {
			d++
		}
		where := "?"
		for _, e := range es {
			if d >= e.Off {
				where = fmt.Sprintf("entry type %#x at %d", e.Type, e.Off)
			}
		}
		fs = append(fs, vf.F("KeyCredential.ToBytes", "reserialised-blob-differs", "err %v; %d vs %d bytes, first difference at %d (%s): %x vs %x", err, len(again), len(blob), d, where, again[min(d, len(again)):min(d+4, len(again))], blob[min(d, len(blob)):min(d+4, len(blob))]))
	}
	return fs
}

func genKC(t *rapid.T) kcCase {
	c := kcCase{Version: rapid.SampledFrom([]uint32{key.KeyCredentialVersion_0, key.KeyCredentialVersion_1, key.KeyCredentialVersion_2}).Draw(t, "version"), Usage: 0xFF, Source: -1}
	switch rapid.IntRange(0, 3).Draw(t, "expClass") {
	case 0:
		c.Exponent = 3
	case 1:
		c.Exponent = 65537
	default:
		c.Exponent = rapid.Uint32Range(1, 0xFFFFFFFF).Draw(t, "exp")
	}
	// harness-written blobs: the exponent in the width the library itself writes (0), or in any width
	// from the shortest that holds it up to four bytes (3 -> 03, 65537 -> 01 00 01 as Windows writes it)
	if rapid.Bool().Draw(t, "foreignExpWidthOwn") {
		c.ExpWidth = rapid.IntRange(minExpWidth(c.Exponent), 4).Draw(t, "foreignExpWidth")
	}
	var ml int
	switch rapid.IntRange(0, 3).Draw(t, "modClass") {
	case 0:
		ml = rapid.SampledFrom([]int{1, 64, 128, 256, 512, 1024, 2048}).Draw(t, "modStd")
	default:
		ml = rapid.IntRange(1, 300).Draw(t, "modLen")
	}
	c.Modulus = rapid.SliceOfN(rapid.Byte(), ml, ml).Draw(t, "modulus")
	// "all moduli": the byte string is what is stored, so leading zero bytes (the DER habit of a
	// sign octet, or a short value in a fixed-size field) are part of it
	if lz := rapid.IntRange(0, 15).Draw(t, "leadingZeros"); lz <= 2 {
		for i := 0; i <= lz && i < ml; i++ {
			c.Modulus[i] = 0
		}
	}
	c.KeySize = uint32(ml * 8)
	switch rapid.IntRange(0, 6).Draw(t, "primes") {
	case 2:
		// private material of the key sizes in use (RSA-2048 .. RSA-8192: primes of 128 .. 512 bytes)
		// and the lengths either side of the first one that needs a second length byte
		std := []int{128, 255, 256, 257, 512}
		l1, l2 := rapid.SampledFrom(std).Draw(t, "prime1Std"), rapid.SampledFrom(std).Draw(t, "prime2Std")
		c.Prime1 = rapid.SliceOfN(rapid.Byte(), l1, l1).Draw(t, "p1")
		c.Prime2 = rapid.SliceOfN(rapid.Byte(), l2, l2).Draw(t, "p2")
	case 0:
		pl := rapid.IntRange(1, 150).Draw(t, "primeLen")
		c.Prime1 = rapid.SliceOfN(rapid.Byte(), pl, pl).Draw(t, "p1")
		c.Prime2 = rapid.SliceOfN(rapid.Byte(), pl, pl).Draw(t, "p2")
	case 1:
		// the two primes have lengths of their own (one may be absent)
		l1, l2 := rapid.IntRange(0, 150).Draw(t, "prime1Len"), rapid.IntRange(0, 150).Draw(t, "prime2Len")
		c.Prime1 = rapid.SliceOfN(rapid.Byte(), l1, l1).Draw(t, "p1")
		c.Prime2 = rapid.SliceOfN(rapid.Byte(), l2, l2).Draw(t, "p2")
	}
	c.Device = rapid.SliceOfN(rapid.Byte(), 16, 16).Draw(t, "device")
	tick := func(label string) uint64 {
		switch rapid.IntRange(0, 3).Draw(t, label+"Class") {
		case 0:
			return rapid.Uint64Range(1, 1<<63-1).Draw(t, label+"Wide")
		default:
			return rapid.Uint64Range(116444736000000000, 150000000000000000).Draw(t, label) // 1970..2076
		}
	}
	c.LastLogon, c.Creation = tick("lastLogon"), tick("creation")
	if rapid.IntRange(0, 2).Draw(t, "custom") == 0 {
		c.Usage = rapid.SampledFrom([]uint8{0, 1, 2, 3, 4, 7, 8, 9}).Draw(t, "usage")
		c.Source = rapid.IntRange(0, 1).Draw(t, "source")
	}
	if rapid.IntRange(0, 2).Draw(t, "legacy") == 0 {
		if rapid.Bool().Draw(t, "legacyKnown") {
			c.Legacy = []byte(rapid.SampledFrom([]string{"NGC", "FIDO", "FEK", "STK", "KeySigning"}).Draw(t, "legacyName"))
		} else {
			// the entry holds a name: printable text in valid UTF-8 (what a reader does with bytes that
			// are not text is not the statement's subject)
			ll := rapid.IntRange(2, 12).Draw(t, "legacyLen")
			rs := make([]rune, ll)
			for i := range rs {
				if rs[i] = alpha.Rune(t, ""); !unicode.IsPrint(rs[i]) {
					rs[i] = 'x'
				}
			}
			c.Legacy = []byte(string(rs))
		}
	}
	if rapid.Bool().Draw(t, "customKeyInfo") {
		c.CKI = genCKI(t)
	}
	return c
}

// genCKI draws a CustomKeyInformation of each length the format distinguishes: the two-byte short
// form, the prefixes ending after volume type / notification flag / FEK version / strength /
// the reserved bytes, and the full form with extended data. Version is 1 (the only one defined),
// the notification byte is a boolean 0/1, flags use the two defined bits, volume type and strength
// take the values MS-ADTS 2.2.20.4 defines (0..3 and 0..2; what a reader does with others is not
// the statement's subject). FEK key version, reserved bytes and extended data are arbitrary.
func genCKI(t *rapid.T) []byte {
	n := rapid.SampledFrom([]int{2, 3, 4, 5, 9, 19, 20, 0}).Draw(t, "ckiLen")
	if n == 0 {
		n = rapid.IntRange(21, 60).Draw(t, "ckiLong")
	}
	raw := rapid.SliceOfN(rapid.Byte(), n, n).Draw(t, "ckiBytes")
	raw[0] = 1
	raw[1] = byte(rapid.IntRange(0, 3).Draw(t, "ckiFlags"))
	if n >= 3 {
		raw[2] &= 3
	}
	if n >= 4 {
		raw[3] &= 1
	}
	if n >= 9 {
		raw[5], raw[6], raw[7], raw[8] = raw[5]%3, 0, 0, 0
	}
	return raw
}

func kcNontrivial(c kcCase) bool { return len(c.Modulus) >= 16 }

// genSmallKC: the same cases with the modulus cut to 128 bytes and each prime to 150, for the
// sub-checks whose cost grows with the size of the blob (the sizes themselves are blob-roundtrip's and
// foreign-blob-roundtrip's business).
func genSmallKC(t *rapid.T) kcCase {
	c := genKC(t)
	if len(c.Modulus) > 128 {
		c.Modulus = c.Modulus[:128]
		c.KeySize = 1024
	}
	if len(c.Prime1) > 150 {
		c.Prime1 = c.Prime1[:150]
	}
	if len(c.Prime2) > 150 {
		c.Prime2 = c.Prime2[:150]
	}
	return c
}

func TestBlobRoundtrip(t *testing.T) {
	s := vf.Begin(t, P, "blob-roundtrip")
	vf.Rapid(s, vf.N(4000, 60000), genKC, checkBlob, kcNontrivial)
}

// ---- every single-bit corruption of a blob ----------------------------------------------------------

type flipCase struct {
	KC  kcCase `json:"credential"`
	Bit int    `json:"bit"` // -1: all bits of the blob (generator side); otherwise the one bit to flip
}

func flipOne(blob []byte, bit int, start int, hashOff int, hashLen int) []vf.Finding {
	mut := append([]byte{}, blob...)
	mut[bit/8] ^= 1 << uint(bit%8)
	var kc keycredentiallink.KeyCredential
	err := kc.FromBytes(mut)
	if err != nil {
		return nil // rejected: fine
	}
	if kc.CheckIntegrity() {
		region := "entries after the key hash"
		if bit/8 < start {
			region = "key hash entry"
		}
		return []vf.Finding{vf.F("KeyCredential.CheckIntegrity", "tampering-not-detected", "bit %d (byte %d, %s) flipped, FromBytes ok and CheckIntegrity true", bit, bit/8, region)}
	}
	return nil
}

func checkFlips(c flipCase) []vf.Finding {
	kc, _ := c.KC.build()
	blob, err := kc.ToBytes()
	if err != nil {
		return []vf.Finding{vf.F("KeyCredential.ToBytes", "error", "%v", err)}
	}
	start, stored, ok := hashRegion(blob)
	if !ok {
		return []vf.Finding{vf.F("KeyCredential.ToBytes", "no-keyhash-entry", "")}
	}
	hashOff := start - len(stored)
	// The verifier sees the credential as it is stored first, as it would in a directory where a
	// tampered copy turns up later, and once more after all the corrupted ones: its verdict on a blob
	// is a function of that blob, not of the blobs it has judged before.
	intact := func(when string) []vf.Finding {
		var kc keycredentiallink.KeyCredential
		if err := kc.FromBytes(append([]byte{}, blob...)); err != nil {
			return []vf.Finding{vf.F("KeyCredential.FromBytes", "own-blob-rejected", "%s the corrupted copies: %v", when, err)}
		}
		if !kc.CheckIntegrity() {
			return []vf.Finding{vf.F("KeyCredential.CheckIntegrity", "intact-blob-fails-check", "%s the corrupted copies were judged", when)}
		}
		return nil
	}
	if fs := intact("before"); len(fs) > 0 {
		return fs
	}
	if c.Bit >= 0 {
		if c.Bit/8 >= len(blob) {
			return nil
		}
		if fs := flipOne(blob, c.Bit, start, hashOff, len(stored)); len(fs) > 0 {
			return fs
		}
		return intact("after")
	}
	// every bit of the key-hash entry (header included) and of everything after it
	if flipCounter != nil {
		flipCounter.Count("single-bit-flips", int64(len(blob)*8-(hashOff-3)*8))
	}
	for bit := (hashOff - 3) * 8; bit < len(blob)*8; bit++ {
		if fs := flipOne(blob, bit, start, hashOff, len(stored)); len(fs) > 0 {
			return fs
		}
	}
	return intact("after")
}

var flipCounter *vf.Sub

func TestBitflipExhaustive(t *testing.T) {
	s := vf.Begin(t, P, "bitflip-exhaustive")
	flipCounter = s
	var flips int64
	vf.Rapid(s, vf.N(300, 4000), func(t *rapid.T) flipCase {
		return flipCase{genSmallKC(t), -1}
	}, func(c flipCase) []vf.Finding {
		fs := checkFlips(c)
		if len(fs) > 0 && c.Bit < 0 {
			// pin the failing bit so the replay file names it
			return fs
		}
		return fs
	}, func(c flipCase) bool { return kcNontrivial(c.KC) })
	_ = flips
	s.Note("each case flips every single bit of the key-hash entry and of all entries after it (about 8 x (100 + modulus length) flips per blob)")
}

// ---- DN-with-binary -----------------------------------------------------------------------------------

type dnCase struct {
	DN   string `json:"dn"`
	Blob vf.Hex `json:"blob"`
}

func checkDN(c dnCase) []vf.Finding {
	d := keycredentiallink.DNWithBinary{DistinguishedName: c.DN, BinaryData: append([]byte{}, c.Blob...)}
	txt := d.ToString()
	want := fmt.Sprintf("B:%d:%X:%s", 2*len(c.Blob), []byte(c.Blob), c.DN)
	var fs []vf.Finding
	if !strings.EqualFold(txt[:len(txt)-len(c.DN)], want[:len(want)-len(c.DN)]) || !strings.HasSuffix(txt, c.DN) {
		fs = append(fs, vf.F("DNWithBinary.ToString", "form-not-B-len-hex-dn", "got %q want %q", txt, want))
	}
	if d.String() != txt {
		fs = append(fs, vf.F("DNWithBinary.String", "differs-from-ToString", ""))
	}
	var back keycredentiallink.DNWithBinary
	if err := back.Parse([]byte(txt)); err != nil {
		kind := "own-string-rejected"
		if strings.Contains(c.DN, ":") {
			kind = "dn-containing-colon-rejected"
		}
		return append(fs, vf.F("DNWithBinary.Parse", kind, "%q: %v", txt, err))
	}
	if back.DistinguishedName != c.DN {
		fs = append(fs, vf.F("DNWithBinary.Parse", "dn-not-preserved", "got %q want %q", back.DistinguishedName, c.DN))
	}
	if !bytes.Equal(back.BinaryData, c.Blob) {
		fs = append(fs, vf.F("DNWithBinary.Parse", "blob-not-preserved", "got %d bytes want %d", len(back.BinaryData), len(c.Blob)))
	}
	return fs
}

// escapeDNValue writes an attribute value the way RFC 4514 2.4 has it in a distinguished name (and
// Active Directory emits it): the specials , + " \ < > ; = are backslash-escaped, as are a leading '#'
// or space and a trailing space. ':' is not special in a DN and stands as it is.
func escapeDNValue(v string) string {
	var sb strings.Builder
	rs := []rune(v)
	for i, r := range rs {
		switch {
		case strings.ContainsRune(`,+"\<>;=`, r):
			sb.WriteByte('\\')
			sb.WriteRune(r)
		case (i == 0 && (r == '#' || r == ' ')) || (i == len(rs)-1 && r == ' '):
			sb.WriteByte('\\')
			sb.WriteRune(r)
		default:
			sb.WriteRune(r)
		}
	}
	return sb.String()
}

// genDNText draws a distinguished name in the RFC 4514 string form: RDNs of a type and a value, the
// value any text (with ':' and the DN specials over-represented) escaped as escapeDNValue does.
func genDNText(t *rapid.T) string {
	n := rapid.IntRange(0, 5).Draw(t, "rdns")
	var parts []string
	for i := 0; i < n; i++ {
		typ := rapid.SampledFrom([]string{"CN", "OU", "DC", "O", "L"}).Draw(t, "type")
		vl := rapid.IntRange(1, 10).Draw(t, "vlen")
		var sb strings.Builder
		for j := 0; j < vl; j++ {
			switch rapid.IntRange(0, 9).Draw(t, "vc") {
			case 0:
				sb.WriteString(rapid.SampledFrom([]string{":", ",", " ", "\\", "::", "B:", ":0:", "\"", ";", "<", ">", "+", "=", "#"}).Draw(t, "special"))
			default:
				// NUL has no literal form in a DN (RFC 4514 writes it \00)
				sb.WriteRune(alpha.Rune(t, "\x00"))
			}
		}
		parts = append(parts, typ+"="+escapeDNValue(sb.String()))
	}
	return strings.Join(parts, ",")
}

func TestDNWithBinary(t *testing.T) {
	s := vf.Begin(t, P, "dnwithbinary")
	vf.Rapid(s, vf.N(6000, 100000), func(t *rapid.T) dnCase {
		bl := rapid.IntRange(0, 200).Draw(t, "blobLen")
		return dnCase{genDNText(t), rapid.SliceOfN(rapid.Byte(), bl, bl).Draw(t, "blob")}
	}, checkDN, func(c dnCase) bool { return len(c.Blob) > 0 && c.DN != "" })
}

// a real credential through the DN-with-binary form
func TestDNWithBinaryCredential(t *testing.T) {
	s := vf.Begin(t, P, "dnwithbinary-credential")
	vf.Rapid(s, vf.N(1500, 20000), func(t *rapid.T) flipCase { return flipCase{genKC(t), 0} }, func(c flipCase) []vf.Finding {
		kc, _ := c.KC.build()
		blob, err := kc.ToBytes()
		if err != nil {
			return []vf.Finding{vf.F("KeyCredential.ToBytes", "error", "%v", err)}
		}
		dn := "CN=user:" + fmt.Sprint(c.KC.Exponent) + ",DC=corp,DC=local"
		if c.KC.Exponent%2 == 0 {
			dn = "CN=user,DC=corp,DC=local"
		}
		d := keycredentiallink.DNWithBinary{DistinguishedName: dn, BinaryData: blob}
		var back keycredentiallink.DNWithBinary
		if err := back.Parse([]byte(d.ToString())); err != nil {
			kind := "own-string-rejected"
			if strings.Contains(dn, ":") {
				kind = "dn-containing-colon-rejected"
			}
			return []vf.Finding{vf.F("DNWithBinary.Parse", kind, "%v", err)}
		}
		var kc2 keycredentiallink.KeyCredential
		if err := kc2.ParseDNWithBinary(back); err != nil {
			return []vf.Finding{vf.F("KeyCredential.ParseDNWithBinary", "own-blob-rejected", "%v", err)}
		}
		id, _ := identifierBytes(kc.Identifier, kc.Version)
		id2, err := identifierBytes(kc2.Identifier, kc2.Version)
		if !kc2.CheckIntegrity() || err != nil || !bytes.Equal(id2, id) || back.DistinguishedName != dn {
			return []vf.Finding{vf.F("KeyCredential.ParseDNWithBinary", "credential-not-preserved", "integrity %v", kc2.CheckIntegrity())}
		}
		return nil
	}, func(c flipCase) bool { return kcNontrivial(c.KC) })
}

// ---- blobs written by the harness ------------------------------------------------------------------------
//
// The blob of a case as MS-ADTS 2.2.20 lays it out, written without the library: version, then the
// entries in increasing identifier order, BCRYPT_RSAKEY_BLOB key material, key id = SHA-256 of the key
// material, key hash = SHA-256 of everything after the hash entry. BCRYPT_RSAKEY_BLOB gives the
// big-endian public exponent a length field of its own (cbPublicExp), so how many bytes a writer spends
// on it is its choice (Windows writes 65537 in three, the library in four): the writer takes the width
// as a parameter.

// minExpWidth: the number of bytes the exponent needs.
func minExpWidth(e uint32) int {
	w := 1
	for e >>= 8; e != 0; e >>= 8 {
		w++
	}
	return w
}

// refMaterial: the key material with an exponent field of expWidth bytes (which must hold the exponent).
func refMaterial(c kcCase, expWidth int) []byte {
	b := []byte("RSA1")
	b = binary.LittleEndian.AppendUint32(b, c.KeySize)
	b = binary.LittleEndian.AppendUint32(b, uint32(expWidth))
	b = binary.LittleEndian.AppendUint32(b, uint32(len(c.Modulus)))
	b = binary.LittleEndian.AppendUint32(b, uint32(len(c.Prime1)))
	b = binary.LittleEndian.AppendUint32(b, uint32(len(c.Prime2)))
	for i := expWidth - 1; i >= 0; i-- {
		if i >= 4 {
			b = append(b, 0)
		} else {
			b = append(b, byte(c.Exponent>>(8*uint(i))))
		}
	}
	b = append(b, c.Modulus...)
	b = append(b, c.Prime1...)
	return append(b, c.Prime2...)
}

// expWidthIn: the width of the exponent field (cbPublicExp) in the key material entry of a blob, 0 if
// the blob has no such entry or the entry is shorter than the BCRYPT_RSAKEY_BLOB header.
func expWidthIn(blob []byte) int {
	_, es, err := walk(blob)
	if err != nil {
		return 0
	}
	m := materialEntry(es)
	if len(m) < 24 || string(m[:4]) != "RSA1" {
		return 0
	}
	w := binary.LittleEndian.Uint32(m[8:12])
	if uint64(w) > uint64(len(m)-24) {
		return 0
	}
	return int(w)
}

func (c kcCase) usageSource() (uint8, key.KeySource) {
	u, s := key.KeyUsage_NGC, key.KeySource_AD
	if c.Usage != 0xFF {
		u = c.Usage
	}
	if c.Source >= 0 {
		s = key.KeySource(c.Source)
	}
	return u, s
}

// refIdentifier: the key identifier, the SHA-256 of the key material.
func refIdentifier(c kcCase, expWidth int) []byte {
	h := sha256.Sum256(refMaterial(c, expWidth))
	return h[:]
}

func refBlob(c kcCase, expWidth int) []byte {
	return refBlobID(c, expWidth, refIdentifier(c, expWidth))
}

// refBlobID: the blob with a given key identifier entry (refBlob: the SHA-256 of the key material as
// written).
func refBlobID(c kcCase, expWidth int, id []byte) []byte {
	ent := func(b []byte, typ byte, v []byte) []byte {
		b = binary.LittleEndian.AppendUint16(b, uint16(len(v)))
		b = append(b, typ)
		return append(b, v...)
	}
	usage, source := c.usageSource()
	var tail []byte
	tail = ent(tail, 0x03, refMaterial(c, expWidth))
	tail = ent(tail, 0x04, []byte{usage})
	if len(c.Legacy) > 0 {
		tail = ent(tail, 0x04, c.Legacy)
	}
	tail = ent(tail, 0x05, []byte{byte(source)})
	tail = ent(tail, 0x06, c.Device)
	tail = ent(tail, 0x07, c.cki())
	tail = ent(tail, 0x08, binary.LittleEndian.AppendUint64(nil, c.LastLogon))
	tail = ent(tail, 0x09, binary.LittleEndian.AppendUint64(nil, c.Creation))
	hash := sha256.Sum256(tail)
	b := binary.LittleEndian.AppendUint32(nil, c.Version)
	b = ent(b, 0x01, id)
	b = ent(b, 0x02, hash[:])
	return append(b, tail...)
}

func diffAt(a, b []byte) int {
	d := 0
	for d < len(a) && d < len(b) && a[d] == b[d] {
		d++
	}
	return d
}

// libExpWidth: the width of the exponent field in the library's own serialisation of case c (the
// library's choice; 4 if it cannot be read off, which the comparison with the harness's blob reports).
func libExpWidth(c kcCase) (own []byte, width int) {
	width = 4
	if built, _ := c.build(); built != nil {
		if b, err := built.ToBytes(); err == nil {
			own = b
			if w := expWidthIn(b); w >= minExpWidth(c.Exponent) {
				width = w
			}
		}
	}
	return
}

// foreignBlob: the harness-written blob of case c, with the exponent width the case names or, if it
// names none, the one the library itself uses.
func foreignBlob(c kcCase) (blob []byte, expWidth int) {
	expWidth = c.ExpWidth
	if expWidth < minExpWidth(c.Exponent) {
		_, expWidth = libExpWidth(c)
	}
	return refBlob(c, expWidth), expWidth
}

func checkForeignBlob(c kcCase) []vf.Finding {
	var fs []vf.Finding
	blob, expWidth := foreignBlob(c)
	var kc keycredentiallink.KeyCredential
	arg := track(blob)
	err := kc.FromBytes(arg.buf)
	arg.untouched("KeyCredential.FromBytes", &fs)
	if err != nil {
		return append(fs, vf.F("KeyCredential.FromBytes", "well-formed-blob-rejected", "%x: %v", blob, err))
	}
	usage, source := c.usageSource()
	fs = append(fs, compareParsed(&kc, c, refIdentifier(c, expWidth), usage, source)...)
	if !kc.CheckIntegrity() {
		fs = append(fs, vf.F("KeyCredential.CheckIntegrity", "intact-blob-fails-check", "stored hash is the SHA-256 of the entries after it"))
	}
	// the harness's blob puts the numeric KeyUsage entry before the string-valued one; both carry
	// identifier 0x04, so a writer may order them the other way round (sameModuloTies)
	// A blob whose exponent field has another width than the library writes: a writer that keeps the
	// width it read gives the blob back byte for byte; one that writes its own width gives the same
	// credential (the identifier that was parsed included) with the exponent in that width, which is
	// what the harness's blob is rebuilt with then. A blob in the library's own width comes back as it is.
	_, stored, _ := hashRegion(blob)
	again, err := kc.ToBytes()
	if err != nil {
		fs = append(fs, vf.F("KeyCredential.ToBytes", "reserialised-blob-differs", "err %v", err))
	} else {
		ref := blob
		if w := expWidthIn(again); w != expWidth && w >= minExpWidth(c.Exponent) {
			if _, own := libExpWidth(c); w == own {
				ref = refBlobID(c, w, refIdentifier(c, expWidth))
			}
		}
		if diff := sameModuloTies(again, ref, stored); diff != "" {
			fs = append(fs, vf.F("KeyCredential.ToBytes", "reserialised-blob-differs", "%s", diff))
		}
	}
	arg.untouched("KeyCredential.CheckIntegrity/ToBytes", &fs)
	// the library's own serialisation of the same credential is the harness's blob of it too, written
	// with the exponent width the library chose
	if own, w := libExpWidth(c); own != nil {
		if diff := sameModuloTies(own, refBlob(c, w), nil); diff != "" {
			fs = append(fs, vf.F("KeyCredential.ToBytes", "blob-differs-from-ms-adts-layout", "%s", diff))
		}
	}
	return fs
}

func TestForeignBlob(t *testing.T) {
	s := vf.Begin(t, P, "foreign-blob-roundtrip")
	vf.Rapid(s, vf.N(3000, 45000), genKC, checkForeignBlob, func(c kcCase) bool {
		return kcNontrivial(c) && (len(c.CKI) > 2 || len(c.Legacy) > 0 || c.Usage != 0xFF)
	})
}

// ---- decoding into a credential that already holds one -----------------------------------------------
//
// FromBytes is a method on a variable the caller may reuse (a loop over the values of an
// msDS-KeyCredentialLink attribute). What it yields for blob B must not depend on the blob A the
// variable held before.

type reuseCase struct {
	A       kcCase `json:"previous"`
	B       kcCase `json:"credential"`
	Foreign bool   `json:"blobs_written_by_harness"`
	// the distinguished names the two blobs travel with in their DN-with-binary form
	DNA string `json:"previous_dn,omitempty"`
	DNB string `json:"dn,omitempty"`
}

// dnText is the DN-with-binary string (LDAP syntax 1.2.840.113556.1.4.903) of a blob and a DN,
// B:<number of hex digits>:<hex digits>:<dn>, written without the library.
func dnText(blob []byte, dn string) []byte {
	return []byte(fmt.Sprintf("B:%d:%X:%s", 2*len(blob), blob, dn))
}

// checkReuseDN: DNWithBinary.Parse is a method on a variable the caller may reuse as well (one
// variable for all values of the attribute).
func checkReuseDN(c reuseCase, blobA, blobB []byte) []vf.Finding {
	var fresh, used keycredentiallink.DNWithBinary
	if fresh.Parse(dnText(blobB, c.DNB)) != nil || used.Parse(dnText(blobA, c.DNA)) != nil {
		return nil // acceptance is judged by the dnwithbinary sub-checks
	}
	who := "DNWithBinary.Parse"
	if err := used.Parse(dnText(blobB, c.DNB)); err != nil {
		return []vf.Finding{vf.F(who, "accepted-string-rejected-on-used-receiver", "%v", err)}
	}
	var fs []vf.Finding
	if used.DistinguishedName != fresh.DistinguishedName {
		fs = append(fs, vf.F(who, "dn-depends-on-previous-receiver-value", "%q, on a new variable %q (the variable held %q before)", used.DistinguishedName, fresh.DistinguishedName, c.DNA))
	}
	if !bytes.Equal(used.BinaryData, fresh.BinaryData) {
		fs = append(fs, vf.F(who, "binary-data-depends-on-previous-receiver-value", "%d bytes, on a new variable %d (the variable held %d before); first difference at %d", len(used.BinaryData), len(fresh.BinaryData), len(blobA), diffAt(used.BinaryData, fresh.BinaryData)))
	}
	if u, f := used.ToString(), fresh.ToString(); len(fs) == 0 && u != f {
		fs = append(fs, vf.F(who, "string-form-depends-on-previous-receiver-value", "%d characters, on a new variable %d", len(u), len(f)))
	}
	return fs
}

func (c reuseCase) blobs() (a, b []byte, err error) {
	if c.Foreign {
		a, _ = foreignBlob(c.A)
		b, _ = foreignBlob(c.B)
		return a, b, nil
	}
	ka, _ := c.A.build()
	kb, _ := c.B.build()
	if a, err = ka.ToBytes(); err != nil {
		return
	}
	b, err = kb.ToBytes()
	return
}

func checkReuse(c reuseCase) []vf.Finding {
	blobA, blobB, err := c.blobs()
	if err != nil {
		return []vf.Finding{vf.F("KeyCredential.ToBytes", "error", "%v", err)}
	}
	fs := checkReuseDN(c, blobA, blobB)
	var fresh, used keycredentiallink.KeyCredential
	if fresh.FromBytes(append([]byte{}, blobB...)) != nil || used.FromBytes(append([]byte{}, blobA...)) != nil {
		return fs // acceptance is judged by the round-trip sub-checks
	}
	fsDN := len(fs)
	who := "KeyCredential.FromBytes"
	if err := used.FromBytes(append([]byte{}, blobB...)); err != nil {
		return append(fs, vf.F(who, "accepted-blob-rejected-on-used-receiver", "%v", err))
	}
	dep := func(field string, format string, a ...any) {
		fs = append(fs, vf.F(who, field+"-depends-on-previous-receiver-value", format, a...))
	}
	if used.Version.Value != fresh.Version.Value {
		dep("version", "%#x, on a new variable %#x", used.Version.Value, fresh.Version.Value)
	}
	if used.Identifier != fresh.Identifier {
		dep("identifier", "%q, on a new variable %q", used.Identifier, fresh.Identifier)
	}
	if !bytes.Equal(used.KeyHash, fresh.KeyHash) {
		dep("key-hash", "%x, on a new variable %x", used.KeyHash, fresh.KeyHash)
	}
	um, fm := used.RawKeyMaterial, fresh.RawKeyMaterial
	if um.Exponent != fm.Exponent || um.KeySize != fm.KeySize || !bytes.Equal(um.Modulus, fm.Modulus) || !bytes.Equal(um.Prime1, fm.Prime1) || !bytes.Equal(um.Prime2, fm.Prime2) {
		dep("key-material", "exp %d/%d keysize %d/%d modulus %d/%d primes %d,%d/%d,%d bytes", um.Exponent, fm.Exponent, um.KeySize, fm.KeySize, len(um.Modulus), len(fm.Modulus), len(um.Prime1), len(um.Prime2), len(fm.Prime1), len(fm.Prime2))
	}
	if used.Usage.Value != fresh.Usage.Value {
		dep("usage", "%d, on a new variable %d", used.Usage.Value, fresh.Usage.Value)
	}
	if used.LegacyUsage != fresh.LegacyUsage {
		dep("legacy-usage", "%q, on a new variable %q (the variable held %q before)", used.LegacyUsage, fresh.LegacyUsage, string(c.A.Legacy))
	}
	if used.Source != fresh.Source {
		dep("source", "%d, on a new variable %d", used.Source, fresh.Source)
	}
	if u, f := used.DeviceId, fresh.DeviceId; u.A != f.A || u.B != f.B || u.C != f.C || u.D != f.D || u.E != f.E {
		dep("device-id", "%s, on a new variable %s", used.DeviceId.ToFormatD(), fresh.DeviceId.ToFormatD())
	}
	if used.LastLogonTime.Ticks != fresh.LastLogonTime.Ticks || used.CreationTime.Ticks != fresh.CreationTime.Ticks || !used.LastLogonTime.Time.Equal(fresh.LastLogonTime.Time) || !used.CreationTime.Time.Equal(fresh.CreationTime.Time) {
		dep("timestamps", "%d,%d, on a new variable %d,%d", used.LastLogonTime.Ticks, used.CreationTime.Ticks, fresh.LastLogonTime.Ticks, fresh.CreationTime.Ticks)
	}
	if u, f := used.CustomKeyInfo.ToBytes(), fresh.CustomKeyInfo.ToBytes(); !bytes.Equal(u, f) {
		dep("custom-key-information", "%x, on a new variable %x", u, f)
	}
	if u, f := used.CheckIntegrity(), fresh.CheckIntegrity(); u != f {
		dep("integrity-verdict", "%v, on a new variable %v", u, f)
	}
	// the catch-all for state no comparison above looks at: with every field equal, the two variables
	// must serialise alike (a field difference already reported implies a different blob)
	ub, uerr := used.ToBytes()
	fb, ferr := fresh.ToBytes()
	if len(fs) == fsDN && ((uerr == nil) != (ferr == nil) || !bytes.Equal(ub, fb)) {
		d := diffAt(ub, fb)
		dep("serialisation", "%d bytes (%v), on a new variable %d bytes (%v); first difference at %d", len(ub), uerr, len(fb), ferr, d)
	}
	return fs
}

func TestReceiverReuse(t *testing.T) {
	s := vf.Begin(t, P, "receiver-reuse")
	vf.Rapid(s, vf.N(1500, 20000), func(t *rapid.T) reuseCase {
		return reuseCase{A: genSmallKC(t), B: genSmallKC(t), Foreign: rapid.Bool().Draw(t, "foreign"), DNA: genDNText(t), DNB: genDNText(t)}
	}, checkReuse, func(c reuseCase) bool {
		return kcNontrivial(c.A) && kcNontrivial(c.B) && !bytes.Equal(c.A.Modulus, c.B.Modulus)
	})
}

// ---- results are values of their own -------------------------------------------------------------------
//
// "Serialises to a blob that parses back to the same ..." is a statement about the blob a caller
// holds, and a caller holds it for as long as it likes (it collects the blobs of several credentials
// before it writes the attribute): the bytes / text obtained for credential A must still be A's after
// an unrelated credential B has been built, serialised, parsed, verified and put through the
// DN-with-binary form in other variables. (A serialiser that fills one shared buffer and hands out
// slices of it satisfies every one-credential round trip.)

type keptResult struct {
	who  string
	live func() []byte // the result as it is now
	snap []byte        // private copy taken when it was produced
}

func keepBytes(who string, b []byte) keptResult {
	return keptResult{who, func() []byte { return b }, append([]byte{}, b...)}
}

func keepText(who string, s string) keptResult {
	return keptResult{who, func() []byte { return []byte(s) }, []byte(strings.Clone(s))}
}

func checkIndependence(c reuseCase) []vf.Finding {
	var kept []keptResult
	// results for A ...
	ka, _ := c.A.build()
	blobA, err := ka.ToBytes()
	if err != nil {
		return []vf.Finding{vf.F("KeyCredential.ToBytes", "error", "%v", err)}
	}
	kept = append(kept, keepBytes("KeyCredential.ToBytes", blobA))
	matA := c.A.material()
	kept = append(kept, keepBytes("RSAKeyMaterial.ToBytes", matA.ToBytes()))
	kept = append(kept, keepBytes("KeyCredential.ComputeKeyHash", ka.ComputeKeyHash()))
	kept = append(kept, keepBytes("CustomKeyInformation.ToBytes", ka.CustomKeyInfo.ToBytes()))
	kept = append(kept, keepBytes("DateTime.ToBytes", ka.CreationTime.ToBytes()))
	kept = append(kept, keepText("ComputeKeyIdentifier", kcutils.ComputeKeyIdentifier(matA.ToBytes(), key.KeyCredentialVersion{Value: c.A.Version})))
	dA := keycredentiallink.DNWithBinary{DistinguishedName: c.DNA, BinaryData: append([]byte{}, blobA...)}
	kept = append(kept, keepText("DNWithBinary.ToString", dA.ToString()))
	kept = append(kept, keepText("DNWithBinary.String", dA.String()))
	// what a parse of A's blob (from a buffer of its own) hands out
	var pa keycredentiallink.KeyCredential
	if pa.FromBytes(append([]byte{}, blobA...)) == nil {
		kept = append(kept, keepBytes("KeyCredential.FromBytes: KeyHash", pa.KeyHash))
		kept = append(kept, keepBytes("KeyCredential.FromBytes: RawKeyMaterial.Modulus", pa.RawKeyMaterial.Modulus))
		kept = append(kept, keepBytes("KeyCredential.FromBytes: RawKeyMaterial.Prime1", pa.RawKeyMaterial.Prime1))
		kept = append(kept, keepBytes("KeyCredential.FromBytes: RawKeyMaterial.Prime2", pa.RawKeyMaterial.Prime2))
		kept = append(kept, keepText("KeyCredential.FromBytes: Identifier", pa.Identifier))
		if again, err := pa.ToBytes(); err == nil {
			kept = append(kept, keepBytes("KeyCredential.ToBytes (parsed credential)", again))
		}
	}
	var pd keycredentiallink.DNWithBinary
	if pd.Parse(dnText(blobA, c.DNA)) == nil {
		kept = append(kept, keepBytes("DNWithBinary.Parse: BinaryData", pd.BinaryData))
		kept = append(kept, keepText("DNWithBinary.Parse: DistinguishedName", pd.DistinguishedName))
	}

	// ... then the whole life of an unrelated credential B in other variables ...
	kb, _ := c.B.build()
	blobB, err := kb.ToBytes()
	if err != nil {
		return []vf.Finding{vf.F("KeyCredential.ToBytes", "error", "%v", err)}
	}
	matB := c.B.material()
	_ = matB.ToBytes()
	_ = kb.ComputeKeyHash()
	_ = kb.CustomKeyInfo.ToBytes()
	_ = kb.CreationTime.ToBytes()
	_ = kcutils.ComputeKeyIdentifier(matB.ToBytes(), key.KeyCredentialVersion{Value: c.B.Version})
	var pb keycredentiallink.KeyCredential
	if pb.FromBytes(append([]byte{}, blobB...)) == nil {
		pb.CheckIntegrity()
		pb.ToBytes()
	}
	dB := keycredentiallink.DNWithBinary{DistinguishedName: c.DNB, BinaryData: append([]byte{}, blobB...)}
	_ = dB.String()
	var pdb keycredentiallink.DNWithBinary
	if pdb.Parse([]byte(dB.ToString())) == nil {
		var viaDN keycredentiallink.KeyCredential
		if viaDN.ParseDNWithBinary(pdb) == nil {
			viaDN.CheckIntegrity()
		}
	}

	// ... and A's results are what they were.
	var fs []vf.Finding
	for _, k := range kept {
		if now := k.live(); !bytes.Equal(now, k.snap) {
			fs = append(fs, vf.F(k.who, "result-changes-when-another-value-is-processed", "%d bytes for credential A, first difference at %d after credential B (%d-byte blob) was processed", len(k.snap), diffAt(now, k.snap), len(blobB)))
		}
	}
	return fs
}

func TestResultIndependence(t *testing.T) {
	s := vf.Begin(t, P, "result-independence")
	vf.Rapid(s, vf.N(1500, 20000), func(t *rapid.T) reuseCase {
		return reuseCase{A: genSmallKC(t), B: genSmallKC(t), DNA: genDNText(t), DNB: genDNText(t)}
	}, checkIndependence, func(c reuseCase) bool {
		return kcNontrivial(c.A) && kcNontrivial(c.B) && !bytes.Equal(c.A.Modulus, c.B.Modulus)
	})
}
