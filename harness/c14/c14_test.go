// Package c14: key-credential blobs round-trip and their integrity hash detects tampering.
package c14

import (
	"bytes"
	"crypto/sha256"
	"encoding/binary"
	"fmt"
	"strings"
	"testing"

	"pgregory.net/rapid"

	"github.com/TheManticoreProject/Manticore/windows/guid"
	keycredentiallink "github.com/TheManticoreProject/Manticore/windows/keycredential"
	kccrypto "github.com/TheManticoreProject/Manticore/windows/keycredential/crypto"
	"github.com/TheManticoreProject/Manticore/windows/keycredential/key"
	kcutils "github.com/TheManticoreProject/Manticore/windows/keycredential/utils"

	"manticoreverif/ref/alpha"
	"manticoreverif/vf"
)

const P = "C14"

type kcCase struct {
	Version   uint32 `json:"version"`
	Exponent  uint32 `json:"exponent"`
	Modulus   vf.Hex `json:"modulus"`
	Prime1    vf.Hex `json:"prime1,omitempty"`
	Prime2    vf.Hex `json:"prime2,omitempty"`
	KeySize   uint32 `json:"key_size"`
	Device    vf.Hex `json:"device_guid"`
	LastLogon uint64 `json:"last_logon_ticks"`
	Creation  uint64 `json:"creation_ticks"`
	Usage     uint8  `json:"usage"`  // 0xFF: leave the constructor's default
	Source    int    `json:"source"` // -1: leave the default
}

func (c kcCase) material() kccrypto.RSAKeyMaterial {
	return kccrypto.RSAKeyMaterial{Exponent: c.Exponent, Modulus: append([]byte{}, c.Modulus...), Prime1: append([]byte{}, c.Prime1...), Prime2: append([]byte{}, c.Prime2...), KeySize: c.KeySize}
}

func (c kcCase) build() (*keycredentiallink.KeyCredential, error) {
	ver := key.KeyCredentialVersion{Value: c.Version}
	mat := c.material()
	id := kcutils.ComputeKeyIdentifier(mat.ToBytes(), ver)
	var dev guid.GUID
	dev.FromRawBytes(append([]byte{}, c.Device...))
	kc := keycredentiallink.NewKeyCredential(ver, id, mat, dev, kcutils.NewDateTime(c.LastLogon), kcutils.NewDateTime(c.Creation))
	if c.Usage != 0xFF || c.Source >= 0 {
		if c.Usage != 0xFF {
			kc.Usage = key.KeyUsage{Value: c.Usage}
		}
		if c.Source >= 0 {
			kc.Source = key.KeySource(c.Source)
		}
		kc.RawBytes = nil
		kc.KeyHash = nil
		kc.KeyHash = kc.ComputeKeyHash()
	}
	return kc, nil
}

// walk reads the entry framing independently: version (4 bytes LE), then
// entries of (length uint16 LE, type byte, value).
type entry struct {
	Type  byte
	Off   int // offset of the entry header
	Value []byte
}

func walk(b []byte) (ver uint32, es []entry, err error) {
	if len(b) < 4 {
		return 0, nil, fmt.Errorf("blob shorter than the version field")
	}
	ver = binary.LittleEndian.Uint32(b)
	off := 4
	for off < len(b) {
		if off+3 > len(b) {
			return ver, es, fmt.Errorf("truncated entry header at %d", off)
		}
		l := int(binary.LittleEndian.Uint16(b[off:]))
		if off+3+l > len(b) {
			return ver, es, fmt.Errorf("entry at %d: length %d beyond the blob", off, l)
		}
		es = append(es, entry{b[off+2], off, b[off+3 : off+3+l]})
		off += 3 + l
	}
	return ver, es, nil
}

func hashRegion(b []byte) (start int, stored []byte, ok bool) {
	_, es, err := walk(b)
	if err != nil {
		return 0, nil, false
	}
	for _, e := range es {
		if e.Type == 0x02 {
			return e.Off + 3 + len(e.Value), e.Value, true
		}
	}
	return 0, nil, false
}

func checkBlob(c kcCase) []vf.Finding {
	kc, _ := c.build()
	blob, err := kc.ToBytes()
	if err != nil {
		return []vf.Finding{vf.F("KeyCredential.ToBytes", "error", "%v", err)}
	}
	var fs []vf.Finding
	// independent framing + integrity
	ver, es, err := walk(blob)
	if err != nil {
		return []vf.Finding{vf.F("KeyCredential.ToBytes", "entry-framing-invalid", "%v", err)}
	}
	if ver != c.Version {
		fs = append(fs, vf.F("KeyCredential.ToBytes", "version-field-differs", "%#x want %#x", ver, c.Version))
	}
	start, stored, ok := hashRegion(blob)
	if !ok {
		fs = append(fs, vf.F("KeyCredential.ToBytes", "no-keyhash-entry", "%d entries", len(es)))
	} else if want := sha256.Sum256(blob[start:]); !bytes.Equal(stored, want[:]) {
		fs = append(fs, vf.F("KeyCredential.ToBytes", "stored-hash-is-not-sha256-of-following-entries", "stored %x computed %x", stored, want))
	}
	if !kc.CheckIntegrity() {
		fs = append(fs, vf.F("KeyCredential.CheckIntegrity", "fresh-credential-fails-own-check", ""))
	}
	// parse back
	var back keycredentiallink.KeyCredential
	if err := back.FromBytes(append([]byte{}, blob...)); err != nil {
		return append(fs, vf.F("KeyCredential.FromBytes", "own-blob-rejected", "%v", err))
	}
	if back.Version.Value != c.Version {
		fs = append(fs, vf.F("KeyCredential.FromBytes", "version-not-preserved", "%#x want %#x", back.Version.Value, c.Version))
	}
	if back.Identifier != kc.Identifier {
		fs = append(fs, vf.F("KeyCredential.FromBytes", "identifier-not-preserved", "%q want %q", back.Identifier, kc.Identifier))
	}
	m := back.RawKeyMaterial
	if m.Exponent != c.Exponent || !bytes.Equal(m.Modulus, c.Modulus) || !bytes.Equal(m.Prime1, c.Prime1) || !bytes.Equal(m.Prime2, c.Prime2) || m.KeySize != c.KeySize {
		fs = append(fs, vf.F("KeyCredential.FromBytes", "key-material-not-preserved", "exp %d/%d modulus %d/%d bytes primes %d,%d/%d,%d keysize %d/%d", m.Exponent, c.Exponent, len(m.Modulus), len(c.Modulus), len(m.Prime1), len(m.Prime2), len(c.Prime1), len(c.Prime2), m.KeySize, c.KeySize))
	}
	if back.Usage.Value != kc.Usage.Value {
		fs = append(fs, vf.F("KeyCredential.FromBytes", "usage-not-preserved", "%d want %d", back.Usage.Value, kc.Usage.Value))
	}
	if back.Source != kc.Source {
		fs = append(fs, vf.F("KeyCredential.FromBytes", "source-not-preserved", "%d want %d", back.Source, kc.Source))
	}
	if !bytes.Equal(back.DeviceId.ToBytes(), c.Device) {
		fs = append(fs, vf.F("KeyCredential.FromBytes", "device-id-not-preserved", "%x want %x", back.DeviceId.ToBytes(), []byte(c.Device)))
	}
	if back.LastLogonTime.ToTicks() != c.LastLogon || back.CreationTime.ToTicks() != c.Creation {
		fs = append(fs, vf.F("KeyCredential.FromBytes", "timestamps-not-preserved", "%d,%d want %d,%d", back.LastLogonTime.ToTicks(), back.CreationTime.ToTicks(), c.LastLogon, c.Creation))
	}
	if !back.LastLogonTime.Time.Equal(kc.LastLogonTime.Time) || !back.CreationTime.Time.Equal(kc.CreationTime.Time) {
		fs = append(fs, vf.F("KeyCredential.FromBytes", "timestamps-not-preserved", "time values differ"))
	}
	if !back.CheckIntegrity() {
		fs = append(fs, vf.F("KeyCredential.CheckIntegrity", "parsed-credential-fails-check", ""))
	}
	again, err := back.ToBytes()
	if err != nil || !bytes.Equal(again, blob) {
		d := 0
		for d < len(again) && d < len(blob) && again[d] == blob[d] {
			d++
		}
		where := "?"
		for _, e := range es {
			if d >= e.Off {
				where = fmt.Sprintf("entry type %#x at %d", e.Type, e.Off)
			}
		}
		fs = append(fs, vf.F("KeyCredential.ToBytes", "reserialised-blob-differs", "err %v; %d vs %d bytes, first difference at %d (%s): %x vs %x", err, len(again), len(blob), d, where, again[min(d, len(again)):min(d+4, len(again))], blob[min(d, len(blob)):min(d+4, len(blob))]))
	}
	return fs
}

func genKC(t *rapid.T) kcCase {
	c := kcCase{Version: rapid.SampledFrom([]uint32{key.KeyCredentialVersion_0, key.KeyCredentialVersion_1, key.KeyCredentialVersion_2}).Draw(t, "version"), Usage: 0xFF, Source: -1}
	switch rapid.IntRange(0, 3).Draw(t, "expClass") {
	case 0:
		c.Exponent = 3
	case 1:
		c.Exponent = 65537
	default:
		c.Exponent = rapid.Uint32Range(1, 0xFFFFFFFF).Draw(t, "exp")
	}
	var ml int
	switch rapid.IntRange(0, 3).Draw(t, "modClass") {
	case 0:
		ml = rapid.SampledFrom([]int{1, 64, 128, 256, 512}).Draw(t, "modStd")
	default:
		ml = rapid.IntRange(1, 300).Draw(t, "modLen")
	}
	c.Modulus = rapid.SliceOfN(rapid.Byte(), ml, ml).Draw(t, "modulus")
	if c.Modulus[0] == 0 {
		c.Modulus[0] = 0x80
	}
	c.KeySize = uint32(ml * 8)
	switch rapid.IntRange(0, 5).Draw(t, "primes") {
	case 0:
		pl := rapid.IntRange(1, 150).Draw(t, "primeLen")
		c.Prime1 = rapid.SliceOfN(rapid.Byte(), pl, pl).Draw(t, "p1")
		c.Prime2 = rapid.SliceOfN(rapid.Byte(), pl, pl).Draw(t, "p2")
	case 1:
		// the two primes have lengths of their own (one may be absent)
		l1, l2 := rapid.IntRange(0, 150).Draw(t, "prime1Len"), rapid.IntRange(0, 150).Draw(t, "prime2Len")
		c.Prime1 = rapid.SliceOfN(rapid.Byte(), l1, l1).Draw(t, "p1")
		c.Prime2 = rapid.SliceOfN(rapid.Byte(), l2, l2).Draw(t, "p2")
	}
	c.Device = rapid.SliceOfN(rapid.Byte(), 16, 16).Draw(t, "device")
	tick := func(label string) uint64 {
		switch rapid.IntRange(0, 3).Draw(t, label+"Class") {
		case 0:
			return rapid.Uint64Range(1, 1<<63-1).Draw(t, label+"Wide")
		default:
			return rapid.Uint64Range(116444736000000000, 150000000000000000).Draw(t, label) // 1970..2076
		}
	}
	c.LastLogon, c.Creation = tick("lastLogon"), tick("creation")
	if rapid.IntRange(0, 2).Draw(t, "custom") == 0 {
		c.Usage = rapid.SampledFrom([]uint8{0, 1, 2, 3, 4, 7, 8, 9}).Draw(t, "usage")
		c.Source = rapid.IntRange(0, 1).Draw(t, "source")
	}
	return c
}

func kcNontrivial(c kcCase) bool { return len(c.Modulus) >= 16 }

func TestBlobRoundtrip(t *testing.T) {
	s := vf.Begin(t, P, "blob-roundtrip")
	vf.Rapid(s, vf.N(4000, 60000), genKC, checkBlob, kcNontrivial)
}

// ---- every single-bit corruption of a blob ----------------------------------------------------------

type flipCase struct {
	KC  kcCase `json:"credential"`
	Bit int    `json:"bit"` // -1: all bits of the blob (generator side); otherwise the one bit to flip
}

func flipOne(blob []byte, bit int, start int, hashOff int, hashLen int) []vf.Finding {
	mut := append([]byte{}, blob...)
	mut[bit/8] ^= 1 << uint(bit%8)
	var kc keycredentiallink.KeyCredential
	err := kc.FromBytes(mut)
	if err != nil {
		return nil // rejected: fine
	}
	if kc.CheckIntegrity() {
		region := "entries after the key hash"
		if bit/8 < start {
			region = "key hash entry"
		}
		return []vf.Finding{vf.F("KeyCredential.CheckIntegrity", "tampering-not-detected", "bit %d (byte %d, %s) flipped, FromBytes ok and CheckIntegrity true", bit, bit/8, region)}
	}
	return nil
}

func checkFlips(c flipCase) []vf.Finding {
	kc, _ := c.KC.build()
	blob, err := kc.ToBytes()
	if err != nil {
		return []vf.Finding{vf.F("KeyCredential.ToBytes", "error", "%v", err)}
	}
	start, stored, ok := hashRegion(blob)
	if !ok {
		return []vf.Finding{vf.F("KeyCredential.ToBytes", "no-keyhash-entry", "")}
	}
	hashOff := start - len(stored)
	if c.Bit >= 0 {
		if c.Bit/8 >= len(blob) {
			return nil
		}
		return flipOne(blob, c.Bit, start, hashOff, len(stored))
	}
	// every bit of the key-hash entry (header included) and of everything after it
	if flipCounter != nil {
		flipCounter.Count("single-bit-flips", int64(len(blob)*8-(hashOff-3)*8))
	}
	for bit := (hashOff - 3) * 8; bit < len(blob)*8; bit++ {
		if fs := flipOne(blob, bit, start, hashOff, len(stored)); len(fs) > 0 {
			return fs
		}
	}
	return nil
}

var flipCounter *vf.Sub

func TestBitflipExhaustive(t *testing.T) {
	s := vf.Begin(t, P, "bitflip-exhaustive")
	flipCounter = s
	var flips int64
	vf.Rapid(s, vf.N(300, 4000), func(t *rapid.T) flipCase {
		c := genKC(t)
		if len(c.Modulus) > 128 {
			c.Modulus = c.Modulus[:128]
			c.KeySize = 1024
		}
		return flipCase{c, -1}
	}, func(c flipCase) []vf.Finding {
		fs := checkFlips(c)
		if len(fs) > 0 && c.Bit < 0 {
			// pin the failing bit so the replay file names it
			return fs
		}
		return fs
	}, func(c flipCase) bool { return kcNontrivial(c.KC) })
	_ = flips
	s.Note("each case flips every single bit of the key-hash entry and of all entries after it (about 8 x (100 + modulus length) flips per blob)")
}

// ---- DN-with-binary -----------------------------------------------------------------------------------

type dnCase struct {
	DN   string `json:"dn"`
	Blob vf.Hex `json:"blob"`
}

func checkDN(c dnCase) []vf.Finding {
	d := keycredentiallink.DNWithBinary{DistinguishedName: c.DN, BinaryData: append([]byte{}, c.Blob...)}
	txt := d.ToString()
	want := fmt.Sprintf("B:%d:%X:%s", 2*len(c.Blob), []byte(c.Blob), c.DN)
	var fs []vf.Finding
	if !strings.EqualFold(txt[:len(txt)-len(c.DN)], want[:len(want)-len(c.DN)]) || !strings.HasSuffix(txt, c.DN) {
		fs = append(fs, vf.F("DNWithBinary.ToString", "form-not-B-len-hex-dn", "got %q want %q", txt, want))
	}
	if d.String() != txt {
		fs = append(fs, vf.F("DNWithBinary.String", "differs-from-ToString", ""))
	}
	var back keycredentiallink.DNWithBinary
	if err := back.Parse([]byte(txt)); err != nil {
		kind := "own-string-rejected"
		if strings.Contains(c.DN, ":") {
			kind = "dn-containing-colon-rejected"
		}
		return append(fs, vf.F("DNWithBinary.Parse", kind, "%q: %v", txt, err))
	}
	if back.DistinguishedName != c.DN {
		fs = append(fs, vf.F("DNWithBinary.Parse", "dn-not-preserved", "got %q want %q", back.DistinguishedName, c.DN))
	}
	if !bytes.Equal(back.BinaryData, c.Blob) {
		fs = append(fs, vf.F("DNWithBinary.Parse", "blob-not-preserved", "got %d bytes want %d", len(back.BinaryData), len(c.Blob)))
	}
	return fs
}

func genDNText(t *rapid.T) string {
	n := rapid.IntRange(0, 5).Draw(t, "rdns")
	var parts []string
	for i := 0; i < n; i++ {
		typ := rapid.SampledFrom([]string{"CN", "OU", "DC", "O", "L"}).Draw(t, "type")
		vl := rapid.IntRange(1, 10).Draw(t, "vlen")
		var sb strings.Builder
		for j := 0; j < vl; j++ {
			switch rapid.IntRange(0, 9).Draw(t, "vc") {
			case 0:
				sb.WriteString(rapid.SampledFrom([]string{":", "\\,", " ", "\\\\", "::", "B:", ":0:"}).Draw(t, "special"))
			default:
				sb.WriteRune(alpha.Rune(t, ",\\"))
			}
		}
		parts = append(parts, typ+"="+sb.String())
	}
	return strings.Join(parts, ",")
}

func TestDNWithBinary(t *testing.T) {
	s := vf.Begin(t, P, "dnwithbinary")
	vf.Rapid(s, vf.N(6000, 100000), func(t *rapid.T) dnCase {
		bl := rapid.IntRange(0, 200).Draw(t, "blobLen")
		return dnCase{genDNText(t), rapid.SliceOfN(rapid.Byte(), bl, bl).Draw(t, "blob")}
	}, checkDN, func(c dnCase) bool { return len(c.Blob) > 0 && c.DN != "" })
}

// a real credential through the DN-with-binary form
func TestDNWithBinaryCredential(t *testing.T) {
	s := vf.Begin(t, P, "dnwithbinary-credential")
	vf.Rapid(s, vf.N(1500, 20000), func(t *rapid.T) flipCase { return flipCase{genKC(t), 0} }, func(c flipCase) []vf.Finding {
		kc, _ := c.KC.build()
		blob, err := kc.ToBytes()
		if err != nil {
			return []vf.Finding{vf.F("KeyCredential.ToBytes", "error", "%v", err)}
		}
		dn := "CN=user:" + fmt.Sprint(c.KC.Exponent) + ",DC=corp,DC=local"
		if c.KC.Exponent%2 == 0 {
			dn = "CN=user,DC=corp,DC=local"
		}
		d := keycredentiallink.DNWithBinary{DistinguishedName: dn, BinaryData: blob}
		var back keycredentiallink.DNWithBinary
		if err := back.Parse([]byte(d.ToString())); err != nil {
			kind := "own-string-rejected"
			if strings.Contains(dn, ":") {
				kind = "dn-containing-colon-rejected"
			}
			return []vf.Finding{vf.F("DNWithBinary.Parse", kind, "%v", err)}
		}
		var kc2 keycredentiallink.KeyCredential
		if err := kc2.ParseDNWithBinary(back); err != nil {
			return []vf.Finding{vf.F("KeyCredential.ParseDNWithBinary", "own-blob-rejected", "%v", err)}
		}
		if !kc2.CheckIntegrity() || kc2.Identifier != kc.Identifier || back.DistinguishedName != dn {
			return []vf.Finding{vf.F("KeyCredential.ParseDNWithBinary", "credential-not-preserved", "integrity %v", kc2.CheckIntegrity())}
		}
		return nil
	}, func(c flipCase) bool { return kcNontrivial(c.KC) })
}
