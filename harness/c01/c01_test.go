// Package c01: password-hash primitives equal their reference algorithms.
package c01

import (
	"bytes"
	"encoding/hex"
	"fmt"
	"hash"
	"strings"
	"testing"
	"unicode"

	xmd4 "golang.org/x/crypto/md4"
	"pgregory.net/rapid"

	"github.com/TheManticoreProject/Manticore/crypto/dcc"
	"github.com/TheManticoreProject/Manticore/crypto/dcc2"
	"github.com/TheManticoreProject/Manticore/crypto/lm"
	"github.com/TheManticoreProject/Manticore/crypto/md4"
	"github.com/TheManticoreProject/Manticore/crypto/nt"
	libutf16 "github.com/TheManticoreProject/Manticore/utils/encoding/utf16"

	"manticoreverif/ref/alpha"
	"manticoreverif/ref/refcrypto"
	"manticoreverif/vf"
)

const P = "C01"

// ---- generators -----------------------------------------------------------

var boundaryLens = []int{0, 1, 2, 3, 54, 55, 56, 57, 62, 63, 64, 65, 66, 118, 119, 120, 121, 122, 127, 128, 129, 130, 183, 184, 191, 192, 193}

func genLen(t *rapid.T, max int) int {
	switch rapid.IntRange(0, 3).Draw(t, "lenClass") {
	case 0, 1:
		return boundaryLens[rapid.IntRange(0, len(boundaryLens)-1).Draw(t, "blen")]
	case 2:
		return rapid.IntRange(0, 300).Draw(t, "len")
	default:
		return rapid.IntRange(0, max).Draw(t, "len")
	}
}

func genMsg(t *rapid.T, max int) vf.Hex {
	n := genLen(t, max)
	return rapid.SliceOfN(rapid.Byte(), n, n).Draw(t, "msg")
}

// genPlan cuts n bytes into 1..8 chunks; some chunk boundaries are forced to
// the MD4 block/padding offsets and empty chunks are allowed.
func genPlan(t *rapid.T, n int) []int {
	k := rapid.IntRange(1, 8).Draw(t, "chunks")
	cuts := make([]int, 0, k+1)
	for i := 0; i < k-1; i++ {
		var c int
		switch rapid.IntRange(0, 2).Draw(t, "cutClass") {
		case 0:
			hot := []int{55, 56, 63, 64, 65, 119, 120, 127, 128}
			c = hot[rapid.IntRange(0, len(hot)-1).Draw(t, "hot")]
			if c > n {
				c = n
			}
		default:
			c = rapid.IntRange(0, n).Draw(t, "cut")
		}
		cuts = append(cuts, c)
	}
	// sort
	for i := range cuts {
		for j := i + 1; j < len(cuts); j++ {
			if cuts[j] < cuts[i] {
				cuts[i], cuts[j] = cuts[j], cuts[i]
			}
		}
	}
	sizes := []int{}
	prev := 0
	for _, c := range cuts {
		sizes = append(sizes, c-prev)
		prev = c
	}
	sizes = append(sizes, n-prev)
	return sizes
}

func refMD4Hex(b []byte) string { d := refcrypto.MD4(b); return hex.EncodeToString(d[:]) }

// ---- md4-oneshot ----------------------------------------------------------

type msgCase struct {
	Msg vf.Hex `json:"msg"`
}

func checkOneshot(c msgCase) []vf.Finding {
	var fs []vf.Finding
	want := refcrypto.MD4(c.Msg)
	if got := md4.Sum(c.Msg); got != want {
		fs = append(fs, vf.F("md4.Sum", "digest-differs-from-rfc1320", "len %d: got %x want %x", len(c.Msg), got, want))
	}
	h := md4.New()
	n, err := h.Write(c.Msg)
	if err != nil || n != len(c.Msg) {
		fs = append(fs, vf.F("md4.Write", "short-write", "n=%d err=%v len=%d", n, err, len(c.Msg)))
	}
	if got := h.Sum(); got != want {
		fs = append(fs, vf.F("md4.New/Write/Sum", "digest-differs-from-rfc1320", "len %d: got %x want %x", len(c.Msg), got, want))
	}
	h2 := md4.New()
	h2.Write(c.Msg)
	if got := h2.HexSum(); got != hex.EncodeToString(want[:]) {
		fs = append(fs, vf.F("md4.HexSum", "hex-form-differs", "len %d: got %s want %x", len(c.Msg), got, want))
	}
	return fs
}

func TestMD4Oneshot(t *testing.T) {
	s := vf.Begin(t, P, "md4-oneshot")
	vf.Rapid(s, vf.N(20000, 150000), func(t *rapid.T) msgCase {
		max := 4096
		if vf.Thorough() && rapid.IntRange(0, 199).Draw(t, "huge") == 0 {
			max = 1 << 20
		}
		return msgCase{genMsg(t, max)}
	}, checkOneshot, func(c msgCase) bool { return len(c.Msg) > 55 })
}

// ---- md4-chunked ----------------------------------------------------------

type chunkCase struct {
	Msg  vf.Hex `json:"msg"`
	Plan []int  `json:"plan"`
}

func checkChunked(c chunkCase) []vf.Finding {
	h := md4.New()
	off := 0
	for _, sz := range c.Plan {
		h.Write(c.Msg[off : off+sz])
		off += sz
	}
	want := refcrypto.MD4(c.Msg)
	if got := h.Sum(); got != want {
		return []vf.Finding{vf.F("md4.Write", "chunking-changes-digest", "len %d plan %v: got %x want %x", len(c.Msg), c.Plan, got, want)}
	}
	return nil
}

func nonEmpty(plan []int) int {
	k := 0
	for _, p := range plan {
		if p > 0 {
			k++
		}
	}
	return k
}

func TestMD4Chunked(t *testing.T) {
	s := vf.Begin(t, P, "md4-chunked")
	vf.Rapid(s, vf.N(20000, 150000), func(t *rapid.T) chunkCase {
		m := genMsg(t, 2048)
		return chunkCase{m, genPlan(t, len(m))}
	}, checkChunked, func(c chunkCase) bool { return nonEmpty(c.Plan) >= 2 })
}

// ---- md4-cuts-exhaustive ----------------------------------------------------

type cutCase struct {
	Len int `json:"len"`
	Cut int `json:"cut"`
}

func patternMsg(n int) []byte {
	b := make([]byte, n)
	for i := range b {
		b[i] = byte(i*7 + n)
	}
	return b
}

func TestMD4CutsExhaustive(t *testing.T) {
	s := vf.Begin(t, P, "md4-cuts-exhaustive")
	s.SetExhaustive()
	maxLen := vf.Size(200, 1100)
	s.Note("all message lengths 0..%d x every single cut point", maxLen)
	vf.Enum(s, func(yield func(cutCase)) {
		for n := 0; n <= maxLen; n++ {
			for c := 0; c <= n; c++ {
				yield(cutCase{n, c})
			}
		}
	}, func(c cutCase) []vf.Finding {
		m := patternMsg(c.Len)
		return checkChunked(chunkCase{m, []int{c.Cut, c.Len - c.Cut}})
	}, func(c cutCase) bool { return c.Cut > 0 && c.Cut < c.Len })
}

// ---- md4-read-interleave (model-based) --------------------------------------

type op struct {
	Kind string `json:"op"` // "w", "sum", "hex"
	Data vf.Hex `json:"data,omitempty"`
}
type seqCase struct {
	Ops []op `json:"ops"`
}

func checkInterleave(c seqCase) []vf.Finding {
	h := md4.New()
	ref := xmd4.New()
	total := 0
	for i, o := range c.Ops {
		switch o.Kind {
		case "w":
			h.Write(o.Data)
			ref.Write(o.Data)
			total += len(o.Data)
		case "sum":
			got := h.Sum()
			want := ref.Sum(nil)
			if !bytes.Equal(got[:], want) {
				return []vf.Finding{vf.F("md4.Sum", "read-depends-on-earlier-read", "op %d (Sum after %d bytes): got %x want %x; ops=%s", i, total, got, want, kinds(c.Ops))}
			}
		case "hex":
			got := h.HexSum()
			want := hex.EncodeToString(ref.Sum(nil))
			if got != want {
				return []vf.Finding{vf.F("md4.HexSum", "read-depends-on-earlier-read", "op %d (HexSum after %d bytes): got %s want %s; ops=%s", i, total, got, want, kinds(c.Ops))}
			}
		}
	}
	return nil
}

func kinds(ops []op) string {
	var sb strings.Builder
	for _, o := range ops {
		if o.Kind == "w" {
			fmt.Fprintf(&sb, "w%d ", len(o.Data))
		} else {
			sb.WriteString(o.Kind + " ")
		}
	}
	return sb.String()
}

func readThenOp(c seqCase) bool {
	for i, o := range c.Ops {
		if o.Kind != "w" && i+1 < len(c.Ops) {
			return true
		}
	}
	return false
}

func TestMD4ReadInterleave(t *testing.T) {
	s := vf.Begin(t, P, "md4-read-interleave")
	vf.Rapid(s, vf.N(20000, 150000), func(t *rapid.T) seqCase {
		n := rapid.IntRange(1, 10).Draw(t, "nops")
		var ops []op
		for i := 0; i < n; i++ {
			switch rapid.IntRange(0, 4).Draw(t, "kind") {
			case 0, 1, 2:
				ln := genLen(t, 200)
				ops = append(ops, op{"w", rapid.SliceOfN(rapid.Byte(), ln, ln).Draw(t, "data")})
			case 3:
				ops = append(ops, op{Kind: "sum"})
			default:
				ops = append(ops, op{Kind: "hex"})
			}
		}
		ops = append(ops, op{Kind: "sum"})
		return seqCase{ops}
	}, checkInterleave, readThenOp)
}

// all sequences over a tiny alphabet up to depth 5: w0, w1, w55, w56, w64, sum, hex
func TestMD4ReadInterleaveExhaustive(t *testing.T) {
	s := vf.Begin(t, P, "md4-read-interleave-exhaustive")
	s.SetExhaustive()
	alphabet := []op{{"w", nil}, {"w", patternMsg(1)}, {"w", patternMsg(55)}, {"w", patternMsg(56)}, {"w", patternMsg(64)}, {Kind: "sum"}, {Kind: "hex"}}
	depth := vf.Size(5, 7)
	s.Note("all operation sequences of length 1..%d over {w0,w1,w55,w56,w64,Sum,HexSum}, each followed by a final Sum", depth)
	vf.Enum(s, func(yield func(seqCase)) {
		var rec func(prefix []op, d int)
		rec = func(prefix []op, d int) {
			if len(prefix) > 0 {
				ops := append(append([]op{}, prefix...), op{Kind: "sum"})
				yield(seqCase{ops})
			}
			if d == 0 {
				return
			}
			for _, a := range alphabet {
				rec(append(prefix, a), d-1)
			}
		}
		rec(nil, depth)
	}, checkInterleave, readThenOp)
}

// ---- md4-large (deterministic) ------------------------------------------------
//
// The random sub-checks keep messages short so that many of them fit the time
// budget; this one walks the lengths at which a too-narrow bit or byte counter
// wraps (2^13 bytes = 2^16 bits, 2^16 bytes, ... ) one-shot and streamed in
// several chunk sizes. Message bytes are a fixed function of the position, so a
// case is fully described by (length, chunk size).

type largeCase struct {
	Len   int64 `json:"len"`
	Chunk int   `json:"chunk"` // 0: the whole message in one call (md4.Sum and New/Write/Sum/HexSum); -1: see checkLargeSingle
}

func largeFill(b []byte, at int64) {
	for i := range b {
		p := at + int64(i)
		b[i] = byte(p*131 + p>>8 + p>>17)
	}
}

// checkLargeSingle: three bytes are written first (so that the big call meets a partly filled block), then
// all the rest in a single Write; the model is fed in 1 MiB pieces.
func checkLargeSingle(c largeCase) []vf.Finding {
	m := make([]byte, c.Len)
	largeFill(m, 0)
	head := min(int64(3), c.Len)
	h := md4.New()
	h.Write(m[:head])
	if n, err := h.Write(m[head:]); int64(n) != c.Len-head || err != nil {
		return []vf.Finding{vf.F("md4.Write", "short-write", "single write of %d bytes: n=%d err=%v", c.Len-head, n, err)}
	}
	ref := xmd4.New()
	for at := int64(0); at < c.Len; at += 1 << 20 {
		ref.Write(m[at:min(at+1<<20, c.Len)])
	}
	want := ref.Sum(nil)
	if got := h.Sum(); !bytes.Equal(got[:], want) {
		return []vf.Finding{vf.F("md4.Write", "chunking-changes-digest", "len %d in writes of %d and %d bytes: got %x want %x", c.Len, head, c.Len-head, got, want)}
	}
	return nil
}

func checkLarge(c largeCase) []vf.Finding {
	if c.Chunk < 0 {
		return checkLargeSingle(c)
	}
	if c.Chunk <= 0 {
		m := make([]byte, c.Len)
		largeFill(m, 0)
		return checkOneshot(msgCase{m})
	}
	h := md4.New()
	ref := xmd4.New()
	buf := make([]byte, c.Chunk)
	for at := int64(0); at < c.Len; at += int64(c.Chunk) {
		b := buf
		if rest := c.Len - at; rest < int64(len(b)) {
			b = b[:rest]
		}
		largeFill(b, at)
		if n, err := h.Write(b); n != len(b) || err != nil {
			return []vf.Finding{vf.F("md4.Write", "short-write", "at %d: n=%d err=%v len=%d", at, n, err, len(b))}
		}
		ref.Write(b)
	}
	want := ref.Sum(nil)
	if got := h.Sum(); !bytes.Equal(got[:], want) {
		return []vf.Finding{vf.F("md4.Write", "chunking-changes-digest", "len %d in writes of %d: got %x want %x", c.Len, c.Chunk, got, want)}
	}
	if got := h.HexSum(); got != hex.EncodeToString(want) {
		return []vf.Finding{vf.F("md4.HexSum", "hex-form-differs", "len %d in writes of %d: got %s want %x", c.Len, c.Chunk, got, want)}
	}
	return nil
}

func TestMD4Large(t *testing.T) {
	s := vf.Begin(t, P, "md4-large")
	s.SetExhaustive()
	maxPow := vf.Size(20, 24)
	s.Note("lengths 2^k-1, 2^k, 2^k+1 for k = 13..%d (8 KiB .. %d MiB), each one-shot and streamed in writes of 61, 64, 4095 and len/2+1 bytes; thorough: also 2^29 and 2^32 bits' worth of bytes (+-) streamed, and 2^29 bytes in a single Write", maxPow, (1<<maxPow)>>20)
	vf.Enum(s, func(yield func(largeCase)) {
		for k := 13; k <= maxPow; k++ {
			for d := int64(-1); d <= 1; d++ {
				n := int64(1)<<k + d
				yield(largeCase{n, 0})
				for _, ch := range []int{61, 64, 4095, int(n/2 + 1)} {
					yield(largeCase{n, ch})
				}
			}
		}
		if vf.Thorough() {
			// 2^32 bits = 512 MiB: the low word of the 64-bit length field wraps
			for _, n := range []int64{1<<26 + 3, 1<<29 - 1, 1 << 29, 1<<29 + 65} {
				yield(largeCase{n, 1<<20 + 3})
			}
			// 2^32 bits in ONE Write call (a per-call bit count narrower than 64 bits wraps to 0), and one call of
			// 2^29+64 bytes; each is preceded by a 3-byte write, so the big call meets a partly filled block
			yield(largeCase{1<<29 + 3, -1})
			yield(largeCase{1<<29 + 67, -1})
		}
	}, checkLarge, nil)
}

// ---- md4-instances (several live hashes, interleaved) -------------------------------
//
// Every other sub-check finishes with one hash before it creates the next. Here
// two or three hashes are alive at once, are written to, read and re-created in
// an interleaved order, with one-shot md4.Sum calls in between: each must behave
// as if it were alone.

type instOp struct {
	Inst int    `json:"inst"`
	Kind string `json:"op"` // w, sum, hex, new (re-create this instance), oneshot (package-level md4.Sum)
	Data vf.Hex `json:"data,omitempty"`
}
type instCase struct {
	N   int      `json:"instances"`
	Ops []instOp `json:"ops"`
}

func instKinds(ops []instOp) string {
	var sb strings.Builder
	for _, o := range ops {
		if o.Kind == "w" || o.Kind == "oneshot" {
			fmt.Fprintf(&sb, "%d:%s%d ", o.Inst, o.Kind, len(o.Data))
		} else {
			fmt.Fprintf(&sb, "%d:%s ", o.Inst, o.Kind)
		}
	}
	return sb.String()
}

func checkInstances(c instCase) []vf.Finding {
	if c.N < 1 || c.N > 8 {
		return []vf.Finding{vf.F("harness", "bad-case", "%d instances", c.N)}
	}
	libs := make([]*md4.MD4, c.N)
	refs := make([]hash.Hash, c.N)
	for i := range libs {
		libs[i], refs[i] = md4.New(), xmd4.New()
	}
	read := func(i, at int, what string) []vf.Finding {
		want := refs[i].Sum(nil)
		if what == "hex" {
			if got := libs[i].HexSum(); got != hex.EncodeToString(want) {
				return []vf.Finding{vf.F("md4.HexSum", "instances-not-independent", "op %d, instance %d of %d: got %s want %x; ops=%s", at, i, c.N, got, want, instKinds(c.Ops))}
			}
			return nil
		}
		if got := libs[i].Sum(); !bytes.Equal(got[:], want) {
			return []vf.Finding{vf.F("md4.Sum", "instances-not-independent", "op %d, instance %d of %d: got %x want %x; ops=%s", at, i, c.N, got, want, instKinds(c.Ops))}
		}
		return nil
	}
	for at, o := range c.Ops {
		if o.Inst < 0 || o.Inst >= c.N {
			return []vf.Finding{vf.F("harness", "bad-case", "op %d addresses instance %d of %d", at, o.Inst, c.N)}
		}
		switch o.Kind {
		case "w":
			libs[o.Inst].Write(o.Data)
			refs[o.Inst].Write(o.Data)
		case "new":
			libs[o.Inst], refs[o.Inst] = md4.New(), xmd4.New()
		case "oneshot":
			if got, want := md4.Sum(o.Data), refcrypto.MD4(o.Data); got != want {
				return []vf.Finding{vf.F("md4.Sum", "instances-not-independent", "op %d, one-shot over %d bytes while %d hashes are live: got %x want %x; ops=%s", at, len(o.Data), c.N, got, want, instKinds(c.Ops))}
			}
		case "sum", "hex":
			if fs := read(o.Inst, at, o.Kind); fs != nil {
				return fs
			}
		}
	}
	for i := range libs {
		if fs := read(i, len(c.Ops), "sum"); fs != nil {
			return fs
		}
	}
	return nil
}

// interleaved: some instance is used, then another one, then the first again
func instInterleaved(c instCase) bool {
	last := map[int]int{}
	for at, o := range c.Ops {
		if o.Kind == "oneshot" {
			continue
		}
		if p, ok := last[o.Inst]; ok {
			for q := p + 1; q < at; q++ {
				if c.Ops[q].Inst != o.Inst || c.Ops[q].Kind == "oneshot" {
					return true
				}
			}
		}
		last[o.Inst] = at
	}
	return false
}

func TestMD4Instances(t *testing.T) {
	s := vf.Begin(t, P, "md4-instances")
	vf.Rapid(s, vf.N(8000, 80000), func(t *rapid.T) instCase {
		c := instCase{N: rapid.IntRange(2, 3).Draw(t, "instances")}
		n := rapid.IntRange(2, 12).Draw(t, "nops")
		for i := 0; i < n; i++ {
			o := instOp{Inst: rapid.IntRange(0, c.N-1).Draw(t, "inst")}
			switch rapid.IntRange(0, 9).Draw(t, "kind") {
			case 0, 1, 2, 3, 4:
				o.Kind = "w"
				ln := genLen(t, 200)
				o.Data = rapid.SliceOfN(rapid.Byte(), ln, ln).Draw(t, "data")
			case 5, 6:
				o.Kind = "sum"
			case 7:
				o.Kind = "hex"
			case 8:
				o.Kind = "new"
			default:
				o.Kind = "oneshot"
				ln := genLen(t, 200)
				o.Data = rapid.SliceOfN(rapid.Byte(), ln, ln).Draw(t, "data")
			}
			c.Ops = append(c.Ops, o)
		}
		return c
	}, checkInstances, instInterleaved)
}

// ---- nt / lm / dcc / dcc2 / hashcat forms -----------------------------------

type pwCase struct {
	Password string `json:"password"`
	User     string `json:"user,omitempty"`
	Rounds   int    `json:"rounds,omitempty"`
}

func genPassword(t *rapid.T) string { return alpha.String(t, "pw", 24, "") }
func genUser(t *rapid.T) string     { return alpha.String(t, "user", 20, ":#") }

func ntNontrivial(c pwCase) bool { return alpha.HasNonASCII(c.Password) || len(c.Password) > 27 }

func checkNT(c pwCase) []vf.Finding {
	var fs []vf.Finding
	want := refcrypto.NT(c.Password)
	if got := nt.NTHash(c.Password); got != want {
		fs = append(fs, vf.F("nt.NTHash", "differs-from-ms-nlmp", "pw %q: got %x want %x", c.Password, got, want))
	}
	if got := nt.NTHashHex(c.Password); got != hex.EncodeToString(want[:]) {
		fs = append(fs, vf.F("nt.NTHashHex", "hex-form-differs", "pw %q: got %s want %x", c.Password, got, want))
	}
	if got, w := libutf16.EncodeUTF16LE(c.Password), refcrypto.UTF16LE(c.Password); !bytes.Equal(got, w) {
		fs = append(fs, vf.F("utf16.EncodeUTF16LE", "differs-from-rfc2781", "%q: got %x want %x", c.Password, got, w))
	}
	return fs
}

func TestNT(t *testing.T) {
	s := vf.Begin(t, P, "nt")
	vf.Rapid(s, vf.N(8000, 100000), func(t *rapid.T) pwCase { return pwCase{Password: genPassword(t)} }, checkNT, ntNontrivial)
}

func genLMPassword(t *rapid.T) string {
	n := rapid.IntRange(0, 20).Draw(t, "len")
	if rapid.IntRange(0, 11).Draw(t, "lenClass") == 11 {
		n = rapid.IntRange(21, 300).Draw(t, "longLen")
	}
	b := make([]byte, n)
	for i := range b {
		// every 7-bit value: NUL and the other control characters are characters of the password like any other
		b[i] = byte(rapid.IntRange(0, 0x7f).Draw(t, "ch"))
	}
	return string(b)
}

func checkLM(c pwCase) []vf.Finding {
	var fs []vf.Finding
	want := refcrypto.LM(c.Password)
	got := lm.LMHash(c.Password)
	if !bytes.Equal(got, want) {
		fs = append(fs, vf.F("lm.LMHash", "differs-from-ms-nlmp", "pw %q: got %x want %x", c.Password, got, want))
	}
	if got := lm.LMHashToHex(c.Password); got != hex.EncodeToString(want) {
		fs = append(fs, vf.F("lm.LMHashToHex", "hex-form-differs", "pw %q: got %s want %x", c.Password, got, want))
	}
	if len(fs) > 0 {
		return fs
	}
	// the slice that was returned is the caller's: hashing another password does not change it
	other := otherPassword(c.Password)
	if o, w := lm.LMHash(other), refcrypto.LM(other); !bytes.Equal(o, w) {
		fs = append(fs, vf.F("lm.LMHash", "differs-from-ms-nlmp", "pw %q (right after %q): got %x want %x", other, c.Password, o, w))
	}
	if !bytes.Equal(got, want) {
		fs = append(fs, vf.F("lm.LMHash", "returned-hash-changed-by-later-call", "the slice returned for %q was %x and is %x after LMHash(%q)", c.Password, want, got, other))
	}
	return fs
}

// otherPassword is a 14-digit password that differs from pw at every position (digits have no case, so both
// LM halves differ).
func otherPassword(pw string) string {
	b := make([]byte, 14)
	for i := range b {
		b[i] = '0' + byte(i%10)
		if i < len(pw) && pw[i] == b[i] {
			b[i] = '0' + byte((i+1)%10)
		}
	}
	return string(b)
}

func TestLM(t *testing.T) {
	s := vf.Begin(t, P, "lm")
	vf.Rapid(s, vf.N(8000, 100000), func(t *rapid.T) pwCase { return pwCase{Password: genLMPassword(t)} }, checkLM,
		func(c pwCase) bool { return len(c.Password) > 7 || strings.ToUpper(c.Password) != c.Password })
}

// every byte value 0..127 at every one of the 14 positions (parity / shift logic; a NUL inside the password)
func TestLMPositionsExhaustive(t *testing.T) {
	s := vf.Begin(t, P, "lm-positions-exhaustive")
	s.SetExhaustive()
	vf.Enum(s, func(yield func(pwCase)) {
		for pos := 0; pos < 14; pos++ {
			for v := 0; v < 128; v++ {
				b := []byte("0123456789abcd")
				b[pos] = byte(v)
				yield(pwCase{Password: string(b)})
			}
		}
		for n := 0; n <= 20; n++ {
			yield(pwCase{Password: strings.Repeat("Zy", 10)[:n]})
		}
	}, checkLM, nil)
}

// ---- results-kept ---------------------------------------------------------------
//
// The primitives that hand back a slice (lm.LMHash, utf16.EncodeUTF16LE; the MD4, NT and DCC digests are
// arrays and the other forms strings, which cannot change after the fact) are called for several inputs in a
// row. Every returned slice is kept as it is, not copied, and compared with its reference value only after
// all calls have been made: a result is a value of its own, not a view of a buffer the next call reuses.

type keptCall struct {
	Fn string `json:"fn"` // lm, lmhex, utf16
	In string `json:"in"`
}
type keptCase struct {
	Calls []keptCall `json:"calls"`
}

func checkKept(c keptCase) []vf.Finding {
	type kept struct {
		at        int
		got, want []byte
	}
	var ks []kept
	var fs []vf.Finding
	for i, k := range c.Calls {
		switch k.Fn {
		case "lm":
			ks = append(ks, kept{i, lm.LMHash(k.In), refcrypto.LM(k.In)})
		case "lmhex":
			if got, want := lm.LMHashToHex(k.In), hex.EncodeToString(refcrypto.LM(k.In)); got != want {
				fs = append(fs, vf.F("lm.LMHashToHex", "hex-form-differs", "call %d, pw %q: got %s want %s", i, k.In, got, want))
			}
		case "utf16":
			ks = append(ks, kept{i, libutf16.EncodeUTF16LE(k.In), refcrypto.UTF16LE(k.In)})
		default:
			return []vf.Finding{vf.F("harness", "bad-case", "function %q", k.Fn)}
		}
	}
	for _, k := range ks {
		if !bytes.Equal(k.got, k.want) {
			subj := map[string]string{"lm": "lm.LMHash", "utf16": "utf16.EncodeUTF16LE"}[c.Calls[k.at].Fn]
			fs = append(fs, vf.F(subj, "returned-slice-wrong-after-later-calls", "call %d of %d (%s %q): the kept result is %x, want %x", k.at, len(c.Calls), c.Calls[k.at].Fn, c.Calls[k.at].In, k.got, k.want))
		}
	}
	return fs
}

func TestResultsKept(t *testing.T) {
	s := vf.Begin(t, P, "results-kept")
	vf.Rapid(s, vf.N(3000, 40000), func(t *rapid.T) keptCase {
		var c keptCase
		for i, n := 0, rapid.IntRange(2, 6).Draw(t, "ncalls"); i < n; i++ {
			k := keptCall{Fn: rapid.SampledFrom([]string{"lm", "lm", "lm", "lmhex", "utf16", "utf16"}).Draw(t, "fn")}
			if k.Fn == "utf16" {
				k.In = genPassword(t)
			} else {
				k.In = genLMPassword(t)
			}
			c.Calls = append(c.Calls, k)
		}
		return c
	}, checkKept, func(c keptCase) bool {
		// a slice result followed by a call of the same family with another input
		for i, a := range c.Calls {
			for _, b := range c.Calls[i+1:] {
				if a.Fn != "lmhex" && a.In != b.In && (a.Fn == "utf16") == (b.Fn == "utf16") {
					return true
				}
			}
		}
		return false
	})
}

func dccNontrivial(c pwCase) bool {
	return alpha.HasUpper(c.User) || alpha.HasNonASCII(c.User) || alpha.HasNonBMP(c.Password)
}

func checkDCC(c pwCase) []vf.Finding {
	var fs []vf.Finding
	ntH := refcrypto.NT(c.Password)
	want := refcrypto.DCC(ntH, c.User)
	wantHex := hex.EncodeToString(want[:])
	if got := dcc.DCCHashFromPassword(c.Password, c.User); got != want {
		fs = append(fs, vf.F("dcc.DCCHashFromPassword", "differs-from-mscache", "pw %q user %q: got %x want %x", c.Password, c.User, got, want))
	}
	if got := dcc.DCCHashFromNTHash(ntH, c.User); got != want {
		fs = append(fs, vf.F("dcc.DCCHashFromNTHash", "differs-from-mscache", "user %q: got %x want %x", c.User, got, want))
	}
	if got := dcc.DCCHashFromPasswordToHex(c.Password, c.User); got != wantHex {
		fs = append(fs, vf.F("dcc.DCCHashFromPasswordToHex", "hex-form-differs", "got %s want %s", got, wantHex))
	}
	if got := dcc.DCCHashFromNTHashToHex(ntH, c.User); got != wantHex {
		fs = append(fs, vf.F("dcc.DCCHashFromNTHashToHex", "hex-form-differs", "got %s want %s", got, wantHex))
	}
	// hashcat mode 1100: hash:user   (user compared modulo case, see DESIGN C01)
	for name, line := range map[string]string{
		"dcc.DCCHashFromPasswordToHashcatString": dcc.DCCHashFromPasswordToHashcatString(c.Password, c.User),
		"dcc.DCCHashFromNTHashToHashcatString":   dcc.DCCHashFromNTHashToHashcatString(ntH, c.User),
	} {
		i := strings.IndexByte(line, ':')
		if i != 32 {
			fs = append(fs, vf.F(name, "hashcat-1100-malformed", "line %q: first ':' at %d, want 32", line, i))
			continue
		}
		if line[:32] != wantHex {
			fs = append(fs, vf.F(name, "hashcat-1100-hash-differs", "line %q want hash %s", line, wantHex))
		}
		if alpha.LowerString(line[33:]) != alpha.LowerString(c.User) {
			fs = append(fs, vf.F(name, "hashcat-1100-user-differs", "line %q want user %q", line, c.User))
		}
	}
	return fs
}

func TestDCC(t *testing.T) {
	s := vf.Begin(t, P, "dcc")
	vf.Rapid(s, vf.N(5000, 60000), func(t *rapid.T) pwCase { return pwCase{Password: genPassword(t), User: genUser(t)} }, checkDCC, dccNontrivial)
}

func checkDCC2(c pwCase) []vf.Finding {
	var fs []vf.Finding
	ntH := refcrypto.NT(c.Password)
	wantHex := hex.EncodeToString(refcrypto.DCC2(ntH, c.User, c.Rounds))
	lines := map[string]string{
		"dcc2.DCC2Hash":             dcc2.DCC2Hash(c.User, c.Password, c.Rounds),
		"dcc2.DCC2HashWithPassword": dcc2.DCC2HashWithPassword(c.User, c.Password, c.Rounds),
		"dcc2.DCC2HashWithNTHash":   dcc2.DCC2HashWithNTHash(c.User, ntH, c.Rounds),
	}
	for name, line := range lines {
		// hashcat mode 2100: $DCC2$<rounds>#<user>#<32 hex>
		if !strings.HasPrefix(line, "$DCC2$") {
			fs = append(fs, vf.F(name, "hashcat-2100-malformed", "line %q lacks $DCC2$", line))
			continue
		}
		rest := line[len("$DCC2$"):]
		i := strings.IndexByte(rest, '#')
		j := strings.LastIndexByte(rest, '#')
		if i < 0 || j <= i {
			fs = append(fs, vf.F(name, "hashcat-2100-malformed", "line %q: need two '#'", line))
			continue
		}
		if rest[:i] != fmt.Sprint(c.Rounds) {
			fs = append(fs, vf.F(name, "hashcat-2100-rounds-differ", "line %q rounds want %d", line, c.Rounds))
		}
		if alpha.LowerString(rest[i+1:j]) != alpha.LowerString(c.User) {
			fs = append(fs, vf.F(name, "hashcat-2100-user-differs", "line %q want user %q", line, c.User))
		}
		if rest[j+1:] != wantHex {
			fs = append(fs, vf.F(name, "differs-from-mscache2", "pw %q user %q rounds %d: line %q want hash %s", c.Password, c.User, c.Rounds, line, wantHex))
		}
	}
	return fs
}

func TestDCC2(t *testing.T) {
	s := vf.Begin(t, P, "dcc2")
	vf.Rapid(s, vf.N(600, 6000), func(t *rapid.T) pwCase {
		r := rapid.IntRange(1, 64).Draw(t, "rounds")
		return pwCase{Password: genPassword(t), User: genUser(t), Rounds: r}
	}, checkDCC2, func(c pwCase) bool { return c.Rounds > 1 })
}

// ---- DCC and DCC2 fold the user name the same way ---------------------------------------------------------
//
// DCC = MD4(NT || UTF16LE(lower(user))) and DCC2 = PBKDF2(DCC, UTF16LE(lower(user)), ...): one function `lower` in
// both. For user names outside the case-safe alphabet of the sub-checks above (letters whose case mapping changes
// the UTF-16 length or that lie outside the BMP, where nothing offline says what Windows does) no reference
// value is demanded; what is demanded is that the two agree on which spellings are the same user: for a name u
// and a spelling v of it in another case, DCC(u) = DCC(v) exactly when DCC2(u) = DCC2(v), through every entry
// point. (A DCC2 that lower-cases UTF-16 units while DCC lower-cases code points fails for Deseret or Adlam
// capitals; one that lower-cases ASCII only fails for "Élodie".)

type foldCase struct {
	Password string `json:"password"`
	User     string `json:"user"`
	Other    string `json:"other_spelling"`
}

var foldRunes = []rune("aAzZéÉàÀñÑöÖßẞſKkİiıIÅåΩωΣσςЖжДдǅǆǄ" + "\u212a\u2126\u212b" + "\U00010400\U00010428\U000104B0\U000104D8\U0001E900\U0001E922\U00010C80\U00010CC0" + "0 _-.$")

func checkFold(c foldCase) []vf.Finding {
	ntH := refcrypto.NT(c.Password)
	hashOf := func(line string) string { return line[strings.LastIndexByte(line, '#')+1:] }
	d1u, d1v := dcc.DCCHashFromNTHash(ntH, c.User), dcc.DCCHashFromNTHash(ntH, c.Other)
	same1 := d1u == d1v
	var fs []vf.Finding
	for name, f := range map[string]func(user string) string{
		"dcc2.DCC2Hash":             func(u string) string { return hashOf(dcc2.DCC2Hash(u, c.Password, 2)) },
		"dcc2.DCC2HashWithPassword": func(u string) string { return hashOf(dcc2.DCC2HashWithPassword(u, c.Password, 2)) },
		"dcc2.DCC2HashWithNTHash":   func(u string) string { return hashOf(dcc2.DCC2HashWithNTHash(u, ntH, 2)) },
	} {
		if same2 := f(c.User) == f(c.Other); same2 != same1 {
			fs = append(fs, vf.F(name, "dcc-and-dcc2-fold-user-names-differently", "users %q and %q (%+q / %+q): same DCC %v, same DCC2 %v", c.User, c.Other, c.User, c.Other, same1, same2))
		}
	}
	return fs
}

func TestDCCFoldAgreement(t *testing.T) {
	s := vf.Begin(t, P, "dcc-dcc2-same-user-folding")
	vf.Rapid(s, vf.N(1500, 20000), func(t *rapid.T) foldCase {
		rs := rapid.SliceOfN(rapid.SampledFrom(foldRunes), 1, 8).Draw(t, "user")
		u := string(rs)
		var v string
		switch rapid.IntRange(0, 3).Draw(t, "spelling") {
		case 0:
			v = strings.ToUpper(u)
		case 1:
			v = strings.ToLower(u)
		case 2:
			// one letter in its other simple case
			o := append([]rune{}, rs...)
			i := rapid.IntRange(0, len(o)-1).Draw(t, "at")
			if unicode.IsUpper(o[i]) {
				o[i] = unicode.ToLower(o[i])
			} else {
				o[i] = unicode.ToUpper(o[i])
			}
			v = string(o)
		default:
			// another name altogether: the two must differ in both
			v = u + "x"
		}
		return foldCase{Password: genPassword(t), User: u, Other: v}
	}, func(c foldCase) []vf.Finding {
		for _, r := range c.User {
			if r > 0xFFFF {
				s.Class("user-with-letters-outside-the-bmp")
				break
			}
		}
		return checkFold(c)
	}, func(c foldCase) bool { return c.User != c.Other })
}

// the iteration count Windows actually uses, plus its neighbours
func TestDCC2DefaultRounds(t *testing.T) {
	s := vf.Begin(t, P, "dcc2-10240")
	vf.Rapid(s, vf.N(6, 60), func(t *rapid.T) pwCase {
		r := rapid.SampledFrom([]int{10240, 10239, 10241, 4096, 1000}).Draw(t, "rounds")
		return pwCase{Password: genPassword(t), User: genUser(t), Rounds: r}
	}, checkDCC2, func(c pwCase) bool { return c.Rounds > 1 })
}

// Iteration counts at which a 16-bit count wraps, and one well beyond. These are
// expensive (four PBKDF2 runs per case), so they are a handful of fixed cases;
// password and user vary with the case so that no two share a DCC input.
func TestDCC2LargeRounds(t *testing.T) {
	s := vf.Begin(t, P, "dcc2-large-rounds")
	s.SetExhaustive()
	rounds := []int{65535, 65536, 65537, 100000}
	if vf.Thorough() {
		rounds = append(rounds, 131071, 131073, 262144, 1000003)
	}
	s.Note("rounds %v through all three entry points", rounds)
	vf.Enum(s, func(yield func(pwCase)) {
		for i, r := range rounds {
			yield(pwCase{Password: fmt.Sprintf("P\u00e4ss%dw\u00f6rd", i), User: fmt.Sprintf("Us\u00e9r%d", r), Rounds: r})
		}
	}, checkDCC2, nil)
}
