// Package c03: SMB1 message envelope: header, framing and type dispatch exact and repeatable.
package c03

import (
	"bytes"
	"encoding/binary"
	"encoding/json"
	"fmt"
	"reflect"
	"testing"

	"pgregory.net/rapid"

	"github.com/TheManticoreProject/Manticore/network/smb/smb_v10/message"
	"github.com/TheManticoreProject/Manticore/network/smb/smb_v10/message/commands/codes"
	"github.com/TheManticoreProject/Manticore/network/smb/smb_v10/message/header"
	"github.com/TheManticoreProject/Manticore/network/smb/smb_v10/message/securityfeatures"

	"manticoreverif/smbgen"
	"manticoreverif/vf"
)

const P = "C03"

// ---- header ------------------------------------------------------------------------------------------

type hdrCase struct {
	Command  uint8  `json:"command"`
	Status   uint32 `json:"status"`
	Flags    uint8  `json:"flags"`
	Flags2   uint16 `json:"flags2"`
	PIDHigh  uint16 `json:"pid_high"`
	SecKind  int    `json:"security_features_kind"` // 0 reserved, 1 signature, 2 connectionless
	Security vf.Hex `json:"security_features"`
	Reserved uint16 `json:"reserved"`
	TID      uint16 `json:"tid"`
	PIDLow   uint16 `json:"pid_low"`
	UID      uint16 `json:"uid"`
	MID      uint16 `json:"mid"`
}

func (c hdrCase) lib() *header.Header {
	var h *header.Header
	switch c.SecKind {
	case 1:
		h = header.NewHeaderWithSecurityFeaturesSecuritySignature()
		var sig [8]byte
		copy(sig[:], c.Security)
		h.SecurityFeatures.(*securityfeatures.SecurityFeaturesSecuritySignature).SetSecuritySignature(sig)
	case 2:
		h = header.NewHeaderWithSecurityFeaturesConnectionLess()
		sf := h.SecurityFeatures.(*securityfeatures.SecurityFeaturesConnectionlessTransport)
		sf.Key = binary.LittleEndian.Uint32(c.Security[0:4])
		sf.CID = binary.LittleEndian.Uint16(c.Security[4:6])
		sf.SequenceNumber = binary.LittleEndian.Uint16(c.Security[6:8])
	default:
		h = header.NewHeader()
		copy(h.SecurityFeatures.(*securityfeatures.SecurityFeaturesReserved).Reserved[:], c.Security)
	}
	h.Command = codes.CommandCode(c.Command)
	h.Status = c.Status
	h.SetFlags(c.Flags)
	h.SetFlags2(c.Flags2)
	h.PIDHigh, h.Reserved, h.TID, h.PIDLow, h.UID, h.MID = c.PIDHigh, c.Reserved, c.TID, c.PIDLow, c.UID, c.MID
	return h
}

// MS-CIFS 2.2.3.1: Protocol(4) Command(1) Status(4) Flags(1) Flags2(2) PIDHigh(2) SecurityFeatures(8)
// Reserved(2) TID(2) PIDLow(2) UID(2) MID(2), integers little-endian.
func (c hdrCase) ref() []byte {
	b := []byte{0xFF, 'S', 'M', 'B', c.Command}
	b = binary.LittleEndian.AppendUint32(b, c.Status)
	b = append(b, c.Flags)
	b = binary.LittleEndian.AppendUint16(b, c.Flags2)
	b = binary.LittleEndian.AppendUint16(b, c.PIDHigh)
	b = append(b, c.Security...)
	for _, v := range []uint16{c.Reserved, c.TID, c.PIDLow, c.UID, c.MID} {
		b = binary.LittleEndian.AppendUint16(b, v)
	}
	return b
}

func checkHeader(c hdrCase) []vf.Finding {
	var fs []vf.Finding
	h := c.lib()
	want := c.ref()
	got, err := h.Marshal()
	if err != nil || !bytes.Equal(got, want) {
		d := 0
		for d < len(got) && d < len(want) && got[d] == want[d] {
			d++
		}
		fs = append(fs, vf.F("Header.Marshal", "header-differs-from-ms-cifs-2.2.3.1", "first difference at byte %d: got %x want %x (err %v)", d, got, want, err))
	}
	if again, _ := h.Marshal(); !bytes.Equal(again, got) {
		fs = append(fs, vf.F("Header.Marshal", "not-repeatable", "%x then %x", got, again))
	}
	back := header.NewHeader()
	n, err := back.Unmarshal(append(append([]byte{}, want...), 0xAA, 0xBB))
	if err != nil || n != 32 {
		return append(fs, vf.F("Header.Unmarshal", "reference-header-rejected", "n=%d err=%v", n, err))
	}
	sec, _ := back.SecurityFeatures.Marshal()
	if back.Command != codes.CommandCode(c.Command) || back.Status != c.Status || uint16(back.Flags) != uint16(c.Flags) || uint16(back.Flags2) != c.Flags2 ||
		back.PIDHigh != c.PIDHigh || back.Reserved != c.Reserved || back.TID != c.TID || back.PIDLow != c.PIDLow || back.UID != c.UID || back.MID != c.MID ||
		!bytes.Equal(sec, c.Security) || back.Protocol != [4]byte{0xFF, 'S', 'M', 'B'} {
		fs = append(fs, vf.F("Header.Unmarshal", "decoded-header-fields-differ", "got %+v security %x; want %+v", *back, sec, c))
	}
	if back.IsResponse() != (c.Flags&0x80 != 0) || back.IsRequest() == back.IsResponse() {
		fs = append(fs, vf.F("Header.IsResponse", "reply-flag-misread", "flags %#x -> IsResponse %v", c.Flags, back.IsResponse()))
	}
	// PID composition
	if pid := h.GetPID(); pid != uint32(c.PIDHigh)<<16|uint32(c.PIDLow) {
		fs = append(fs, vf.F("Header.GetPID", "pid-composition-wrong", "high %#x low %#x -> %#x", c.PIDHigh, c.PIDLow, pid))
	}
	h2 := header.NewHeader()
	h2.SetPID(uint32(c.PIDHigh)<<16 | uint32(c.PIDLow))
	if h2.PIDHigh != c.PIDHigh || h2.PIDLow != c.PIDLow {
		fs = append(fs, vf.F("Header.SetPID", "pid-decomposition-wrong", "%#x -> high %#x low %#x", uint32(c.PIDHigh)<<16|uint32(c.PIDLow), h2.PIDHigh, h2.PIDLow))
	}
	return fs
}

func genHdr(t *rapid.T) hdrCase {
	d := rapid.SliceOfNDistinct(rapid.ByteRange(1, 254), 32, 32, rapid.ID[byte]).Draw(t, "bytes")
	u16 := func(i int) uint16 { return uint16(d[i]) | uint16(d[i+1])<<8 }
	c := hdrCase{Command: d[0], Status: uint32(d[1]) | uint32(d[2])<<8 | uint32(d[3])<<16 | uint32(d[4])<<24, Flags: d[5], Flags2: u16(6), PIDHigh: u16(8),
		SecKind: rapid.IntRange(0, 2).Draw(t, "secKind"), Security: append([]byte{}, d[10:18]...), Reserved: u16(18), TID: u16(20), PIDLow: u16(22), UID: u16(24), MID: u16(26)}
	if rapid.IntRange(0, 4).Draw(t, "extreme") == 0 {
		c.Status, c.Flags2, c.TID, c.UID, c.MID = rapid.SampledFrom([]uint32{0, 0xFFFFFFFF, 0xC0000022, 0x80000005}).Draw(t, "status"), 0xFFFF, 0xFFFF, 0, 0xFFFF
	}
	return c
}

func TestHeader(t *testing.T) {
	s := vf.Begin(t, P, "header-layout-roundtrip-pid")
	vf.Rapid(s, vf.N(8000, 150000), genHdr, checkHeader, func(c hdrCase) bool { return true })
}

// ---- dispatch, exhaustive -------------------------------------------------------------------------------

// MS-CIFS 2.2.2.1 command codes -> base name of the structures the library defines for them
var codeNames = map[byte]string{0x00: "CreateDirectory", 0x01: "DeleteDirectory", 0x02: "Open", 0x03: "Create", 0x04: "Close", 0x05: "Flush", 0x06: "Delete", 0x07: "Rename",
	0x08: "QueryInformation", 0x09: "SetInformation", 0x0A: "Read", 0x0B: "Write", 0x0C: "LockByteRange", 0x0D: "UnlockByteRange", 0x0E: "CreateTemporary", 0x0F: "CreateNew",
	0x10: "CheckDirectory", 0x11: "ProcessExit", 0x12: "Seek", 0x13: "LockAndRead", 0x14: "WriteAndUnlock", 0x1A: "ReadRaw", 0x1B: "ReadMpx", 0x1D: "WriteRaw", 0x1E: "WriteMpx",
	0x22: "SetInformation2", 0x23: "QueryInformation2", 0x24: "LockingAndx", 0x25: "Transaction", 0x26: "TransactionSecondary", 0x27: "Ioctl", 0x2B: "Echo", 0x2C: "WriteAndClose",
	0x2D: "OpenAndx", 0x2E: "ReadAndx", 0x2F: "WriteAndx", 0x32: "Transaction2", 0x33: "Transaction2Secondary", 0x34: "FindClose2", 0x70: "TreeConnect", 0x71: "TreeDisconnect",
	0x72: "Negotiate", 0x73: "SessionSetupAndx", 0x74: "LogoffAndx", 0x75: "TreeConnectAndx", 0x80: "QueryInformationDisk", 0x81: "Search", 0x82: "Find", 0x83: "FindUnique",
	0x84: "FindClose", 0xA0: "NtTransact", 0xA1: "NtTransactSecondary", 0xA2: "NtCreateAndx", 0xA4: "NtCancel", 0xA5: "NtRename", 0xC0: "OpenPrintFile", 0xC1: "WritePrintFile", 0xC2: "ClosePrintFile"}

type dispCase struct {
	Code  uint8 `json:"code"`
	Reply bool  `json:"reply"`
}

func checkDispatch(c dispCase) []vf.Finding {
	h := header.NewHeader()
	h.Command = codes.CommandCode(c.Code)
	if c.Reply {
		h.SetFlags(0x80)
	}
	hb, _ := h.Marshal()
	wire := append(hb, 0x00, 0x00, 0x00) // WordCount 0, ByteCount 0
	m := message.NewMessage()
	err := m.Unmarshal(wire)
	subject := fmt.Sprintf("code-%#02x-%s", c.Code, map[bool]string{false: "request", true: "response"}[c.Reply])
	if err != nil {
		// an error is fine for pairs the library does not implement; for implemented ones the
		// factory-inventory comparison in C04 notices a structure that disappeared
		if _, ok := expectedType(c); ok && implemented(c) {
			return []vf.Finding{vf.F(subject, "implemented-pair-rejected", "%v", err)}
		}
		return nil
	}
	if m.Command == nil || reflect.ValueOf(m.Command).IsNil() {
		return []vf.Finding{vf.F(subject, "decoded-without-command", "no error and no command")}
	}
	got := reflect.TypeOf(m.Command).Elem().Name()
	if m.Command.GetCommandCode() != codes.CommandCode(c.Code) {
		return []vf.Finding{vf.F(subject, "command-code-of-decoded-structure-differs", "decoded as %s with code %#x", got, uint8(m.Command.GetCommandCode()))}
	}
	if want, ok := expectedType(c); ok && got != want {
		// WriteRaw has two response structures (interim / final): either is a WriteRaw response
		if !(c.Code == 0x1D && c.Reply && (got == "WriteRawFinal" || got == "WriteRawInterim")) {
			return []vf.Finding{vf.F(subject, "wrong-structure-for-code-and-direction", "decoded as %s, MS-CIFS designates %s", got, want)}
		}
	}
	if m.Header.Command != codes.CommandCode(c.Code) || m.Header.IsResponse() != c.Reply {
		return []vf.Finding{vf.F(subject, "decoded-header-fields-differ", "%+v", *m.Header)}
	}
	return nil
}

func expectedType(c dispCase) (string, bool) {
	base, ok := codeNames[c.Code]
	if !ok {
		return "", false
	}
	if c.Reply {
		return base + "Response", true
	}
	return base + "Request", true
}

func implemented(c dispCase) bool {
	for _, e := range smbgen.Inventory() {
		if e.Code == c.Code && e.Response == c.Reply {
			return true
		}
	}
	return false
}

func TestDispatchExhaustive(t *testing.T) {
	s := vf.Begin(t, P, "dispatch-exhaustive")
	s.SetExhaustive()
	s.Note("all 256 command codes x reply flag; %d (code, direction) pairs are implemented by the factories", len(smbgen.Inventory()))
	vf.Enum(s, func(yield func(dispCase)) {
		for code := 0; code < 256; code++ {
			yield(dispCase{uint8(code), false})
			yield(dispCase{uint8(code), true})
		}
	}, checkDispatch, func(c dispCase) bool { _, ok := codeNames[c.Code]; return ok })
}

// ---- framing and repeatability with populated commands -------------------------------------------------------

type msgCase struct {
	Header  hdrCase                    `json:"header"`
	Struct  string                     `json:"struct"`
	Fields  map[string]json.RawMessage `json:"fields"`
	Repeats int                        `json:"marshal_calls"`
}

func (c msgCase) build() (*message.Message, error) {
	e, ok := smbgen.ByName(c.Struct)
	if !ok {
		return nil, fmt.Errorf("unknown structure %s", c.Struct)
	}
	cmd := smbgen.New(e)
	if err := smbgen.Restore(cmd, c.Fields); err != nil {
		return nil, err
	}
	m := message.NewMessage()
	m.Header = c.Header.lib()
	m.AddCommand(cmd)
	if e.Response {
		m.Header.SetFlags(c.Header.Flags | 0x80)
	} else {
		m.Header.SetFlags(c.Header.Flags &^ 0x80)
	}
	return m, nil
}

func frame(wire []byte) (wc int, words, data []byte, err error) {
	if len(wire) < 35 {
		return 0, nil, nil, fmt.Errorf("message of %d bytes shorter than header + counts", len(wire))
	}
	wc = int(wire[32])
	if len(wire) < 33+2*wc+2 {
		return wc, nil, nil, fmt.Errorf("word count %d does not fit a %d-byte message", wc, len(wire))
	}
	words = wire[33 : 33+2*wc]
	bc := int(binary.LittleEndian.Uint16(wire[33+2*wc:]))
	if len(wire) != 32+1+2*wc+2+bc {
		return wc, words, nil, fmt.Errorf("length %d != 32+1+2*%d+2+%d", len(wire), wc, bc)
	}
	return wc, words, wire[35+2*wc:], nil
}

func checkFraming(c msgCase) []vf.Finding {
	m, err := c.build()
	if err != nil {
		return []vf.Finding{vf.F("harness", "bad-case", "%v", err)}
	}
	wire, err := m.Marshal()
	if err != nil {
		return []vf.Finding{vf.F(c.Struct, "marshal-error", "%v", err)}
	}
	var fs []vf.Finding
	if len(wire) < 32 || !bytes.Equal(wire[:32], mustHeader(m)) {
		fs = append(fs, vf.F(c.Struct, "message-does-not-start-with-its-header", ""))
	}
	if wire[4] != uint8(m.Command.GetCommandCode()) {
		fs = append(fs, vf.F(c.Struct, "header-command-differs-from-command-structure", "header %#x structure %#x", wire[4], uint8(m.Command.GetCommandCode())))
	}
	if _, _, _, err := frame(wire); err != nil {
		fs = append(fs, vf.F(c.Struct, "framing-counts-do-not-match-emitted-lengths", "%v", err))
	}
	// decode: same header fields and a structure of the same type
	back := message.NewMessage()
	if err := safeUnmarshal(back, wire); err == nil && back.Command != nil {
		if got := reflect.TypeOf(back.Command).Elem().Name(); got != c.Struct && !(c.Struct == "WriteRawFinal" || c.Struct == "WriteRawInterim") {
			fs = append(fs, vf.F(c.Struct, "wrong-structure-for-code-and-direction", "decoded as %s", got))
		}
		hb, _ := back.Header.Marshal()
		if !bytes.Equal(hb, wire[:32]) {
			fs = append(fs, vf.F(c.Struct, "decoded-header-fields-differ", "%x vs %x", hb, wire[:32]))
		}
	}
	return fs
}

func mustHeader(m *message.Message) []byte { b, _ := m.Header.Marshal(); return b }

func safeUnmarshal(m *message.Message, wire []byte) (err error) {
	defer func() {
		if r := recover(); r != nil {
			err = fmt.Errorf("panic: %v", r)
		}
	}()
	return m.Unmarshal(wire)
}

func genMsg(t *rapid.T, maxBytes int) msgCase {
	names := smbgen.Names()
	name := names[rapid.IntRange(0, len(names)-1).Draw(t, "struct")]
	e, _ := smbgen.ByName(name)
	cmd := smbgen.New(e)
	smbgen.Fill(t, cmd, smbgen.Options{MaxBytes: maxBytes})
	return msgCase{genHdr(t), name, smbgen.Snapshot(cmd), rapid.IntRange(2, 5).Draw(t, "repeats")}
}

func TestFraming(t *testing.T) {
	s := vf.Begin(t, P, "framing")
	vf.Rapid(s, vf.N(114*25, 114*600), func(t *rapid.T) msgCase {
		max := 64
		if rapid.IntRange(0, 19).Draw(t, "big") == 0 {
			max = vf.Size(2000, 60000)
		}
		return genMsg(t, max)
	}, checkFraming, func(c msgCase) bool { return len(c.Fields) > 0 })
}

// ---- repeatability: every Marshal of one message yields the same bytes ------------------------------------------

func checkRepeat(c msgCase) []vf.Finding {
	m, err := c.build()
	if err != nil {
		return []vf.Finding{vf.F("harness", "bad-case", "%v", err)}
	}
	first, err := m.Marshal()
	if err != nil {
		return []vf.Finding{vf.F(c.Struct, "marshal-error", "%v", err)}
	}
	first = append([]byte{}, first...)
	wc1, words1, data1, ferr := frame(first)
	for k := 2; k <= c.Repeats; k++ {
		next, err := m.Marshal()
		if err != nil {
			return []vf.Finding{vf.F(c.Struct, "repeated-marshal-fails", "call %d: %v", k, err)}
		}
		if bytes.Equal(next, first) {
			continue
		}
		// the recorded systemic finding: call k appends the blocks once more. Anything else is new.
		if ferr == nil {
			wc, words, data, err := frame(next)
			if err == nil && wc == k*wc1 && bytes.Equal(words, bytes.Repeat(words1, k)) && bytes.Equal(data, bytes.Repeat(data1, k)) {
				return []vf.Finding{vf.F(c.Struct, "second-marshal-appends-first", "call %d of Marshal emits %d words / %d data bytes, the first call %d / %d: the parameter and data blocks accumulate", k, wc, len(data), wc1, len(data1))}
			}
		}
		return []vf.Finding{vf.F(c.Struct, "repeated-marshal-differs", "call %d: %d bytes vs %d; not the accumulation pattern", k, len(next), len(first))}
	}
	return nil
}

func TestRepeatMarshal(t *testing.T) {
	s := vf.Begin(t, P, "repeat-marshal")
	names := smbgen.Names()
	per := vf.N(6, 100)
	idx := 0
	vf.Rapid(s, len(names)*per, func(t *rapid.T) msgCase {
		name := names[(idx/per)%len(names)]
		idx++
		e, _ := smbgen.ByName(name)
		cmd := smbgen.New(e)
		smbgen.Fill(t, cmd, smbgen.Options{MaxBytes: 24})
		return msgCase{genHdr(t), name, smbgen.Snapshot(cmd), rapid.IntRange(2, 5).Draw(t, "repeats")}
	}, checkRepeat, func(c msgCase) bool { return c.Repeats >= 2 })
}

// ---- block sizes up to the 255-word / 65535-byte limits ---------------------------------------------------
//
// No command structure emits more than a few dozen words, so the limits are reached with raw wire
// bytes: an SMB_COM_ECHO request (EchoCount word, data block = echo data) whose parameter block is
// given w words and whose data block b bytes. Decoding must attribute exactly 2*w bytes to the words
// and exactly b bytes to the data, whatever w and b are.

type blockCase struct {
	Words int `json:"words"`
	Bytes int `json:"bytes"`
}

func checkBlockLimits(c blockCase) []vf.Finding {
	h := header.NewHeader()
	h.Command = codes.CommandCode(0x2B)
	wire, _ := h.Marshal()
	wire = append(wire, byte(c.Words))
	words := make([]byte, 2*c.Words)
	for i := range words {
		words[i] = byte(0x21 + i%0x5d)
	}
	wire = append(wire, words...)
	wire = append(wire, byte(c.Bytes), byte(c.Bytes>>8))
	data := make([]byte, c.Bytes)
	for i := range data {
		data[i] = byte(0xA0 + i%0x53)
	}
	wire = append(wire, data...)
	m := message.NewMessage()
	if err := safeUnmarshal(m, wire); err != nil {
		if c.Words == 0 {
			return nil // an empty parameter block is an error response: decoders may stop there
		}
		return []vf.Finding{vf.F("Message.Unmarshal", "well-framed-message-rejected", "%d words, %d bytes: %v", c.Words, c.Bytes, err)}
	}
	var fs []vf.Finding
	p, d := m.Command.GetParameters(), m.Command.GetData()
	if p == nil || d == nil {
		return []vf.Finding{vf.F("Message.Unmarshal", "blocks-missing-after-decode", "")}
	}
	if int(p.WordCount) != c.Words || !bytes.Equal(p.GetBytes(), words) {
		fs = append(fs, vf.F("Parameters.Unmarshal", "parameter-block-misframed", "%d words on the wire, decoded %d words (%d bytes)", c.Words, p.WordCount, len(p.GetBytes())))
	}
	if int(d.ByteCount) != c.Bytes || !bytes.Equal(d.GetBytes(), data) {
		got := d.GetBytes()
		fs = append(fs, vf.F("Data.Unmarshal", "data-block-misframed", "%d words / %d bytes on the wire: decoded byte count %d, first data bytes %x want %x", c.Words, c.Bytes, d.ByteCount, got[:min(len(got), 6)], data[:min(len(data), 6)]))
	}
	return fs
}

func TestBlockLimits(t *testing.T) {
	s := vf.Begin(t, P, "block-limits-exhaustive")
	s.SetExhaustive()
	s.Note("every word count 0..255 crossed with byte counts {0,1,2,255,256,257,4096,65534,65535}")
	vf.Enum(s, func(yield func(blockCase)) {
		for w := 0; w <= 255; w++ {
			for _, b := range []int{0, 1, 2, 255, 256, 257, 4096, 65534, 65535} {
				yield(blockCase{w, b})
			}
		}
	}, checkBlockLimits, func(c blockCase) bool { return c.Words > 0 && c.Bytes > 0 })
}
