// Package c03: SMB1 message envelope: header, framing and type dispatch exact and repeatable.
package c03

import (
	"bytes"
	"encoding/binary"
	"encoding/json"
	"fmt"
	"reflect"
	"strings"
	"sync"
	"testing"

	"pgregory.net/rapid"

	"github.com/TheManticoreProject/Manticore/network/smb/smb_v10/message"
	"github.com/TheManticoreProject/Manticore/network/smb/smb_v10/message/commands/codes"
	datablock "github.com/TheManticoreProject/Manticore/network/smb/smb_v10/message/data"
	"github.com/TheManticoreProject/Manticore/network/smb/smb_v10/message/header"
	"github.com/TheManticoreProject/Manticore/network/smb/smb_v10/message/parameters"
	"github.com/TheManticoreProject/Manticore/network/smb/smb_v10/message/securityfeatures"

	"manticoreverif/smbgen"
	"manticoreverif/vf"
)

const P = "C03"

// ---- header ------------------------------------------------------------------------------------------

type hdrCase struct {
	Command  uint8  `json:"command"`
	Status   uint32 `json:"status"`
	Flags    uint8  `json:"flags"`
	Flags2   uint16 `json:"flags2"`
	PIDHigh  uint16 `json:"pid_high"`
	SecKind  int    `json:"security_features_kind"` // 0 reserved, 1 signature, 2 connectionless
	Security vf.Hex `json:"security_features"`
	Reserved uint16 `json:"reserved"`
	TID      uint16 `json:"tid"`
	PIDLow   uint16 `json:"pid_low"`
	UID      uint16 `json:"uid"`
	MID      uint16 `json:"mid"`
}

func (c hdrCase) lib() *header.Header {
	var h *header.Header
	switch c.SecKind {
	case 1:
		h = header.NewHeaderWithSecurityFeaturesSecuritySignature()
		var sig [8]byte
		copy(sig[:], c.Security)
		h.SecurityFeatures.(*securityfeatures.SecurityFeaturesSecuritySignature).SetSecuritySignature(sig)
	case 2:
		h = header.NewHeaderWithSecurityFeaturesConnectionLess()
		sf := h.SecurityFeatures.(*securityfeatures.SecurityFeaturesConnectionlessTransport)
		sf.Key = binary.LittleEndian.Uint32(c.Security[0:4])
		sf.CID = binary.LittleEndian.Uint16(c.Security[4:6])
		sf.SequenceNumber = binary.LittleEndian.Uint16(c.Security[6:8])
	default:
		h = header.NewHeader()
		copy(h.SecurityFeatures.(*securityfeatures.SecurityFeaturesReserved).Reserved[:], c.Security)
	}
	h.Command = codes.CommandCode(c.Command)
	h.Status = c.Status
	h.SetFlags(c.Flags)
	h.SetFlags2(c.Flags2)
	h.PIDHigh, h.Reserved, h.TID, h.PIDLow, h.UID, h.MID = c.PIDHigh, c.Reserved, c.TID, c.PIDLow, c.UID, c.MID
	return h
}

// MS-CIFS 2.2.3.1: Protocol(4) Command(1) Status(4) Flags(1) Flags2(2) PIDHigh(2) SecurityFeatures(8)
// Reserved(2) TID(2) PIDLow(2) UID(2) MID(2), integers little-endian.
func (c hdrCase) ref() []byte {
	b := []byte{0xFF, 'S', 'M', 'B', c.Command}
	b = binary.LittleEndian.AppendUint32(b, c.Status)
	b = append(b, c.Flags)
	b = binary.LittleEndian.AppendUint16(b, c.Flags2)
	b = binary.LittleEndian.AppendUint16(b, c.PIDHigh)
	b = append(b, c.Security...)
	for _, v := range []uint16{c.Reserved, c.TID, c.PIDLow, c.UID, c.MID} {
		b = binary.LittleEndian.AppendUint16(b, v)
	}
	return b
}

func checkHeader(c hdrCase) []vf.Finding {
	var fs []vf.Finding
	h := c.lib()
	want := c.ref()
	got, err := h.Marshal()
	if err != nil || !bytes.Equal(got, want) {
		d := 0
		for d < len(got) && d < len(want) && got[d] == want[d] {
			d++
		}
		fs = append(fs, vf.F("Header.Marshal", "header-differs-from-ms-cifs-2.2.3.1", "first difference at byte %d: got %x want %x (err %v)", d, got, want, err))
	}
	if again, _ := h.Marshal(); !bytes.Equal(again, got) {
		fs = append(fs, vf.F("Header.Marshal", "not-repeatable", "%x then %x", got, again))
	}
	back := header.NewHeader()
	n, err := back.Unmarshal(append(append([]byte{}, want...), 0xAA, 0xBB))
	if err != nil || n != 32 {
		return append(fs, vf.F("Header.Unmarshal", "reference-header-rejected", "n=%d err=%v", n, err))
	}
	sec, _ := back.SecurityFeatures.Marshal()
	if back.Command != codes.CommandCode(c.Command) || back.Status != c.Status || uint16(back.Flags) != uint16(c.Flags) || uint16(back.Flags2) != c.Flags2 ||
		back.PIDHigh != c.PIDHigh || back.Reserved != c.Reserved || back.TID != c.TID || back.PIDLow != c.PIDLow || back.UID != c.UID || back.MID != c.MID ||
		!bytes.Equal(sec, c.Security) || back.Protocol != [4]byte{0xFF, 'S', 'M', 'B'} {
		fs = append(fs, vf.F("Header.Unmarshal", "decoded-header-fields-differ", "got %+v security %x; want %+v", *back, sec, c))
	}
	if back.IsResponse() != (c.Flags&0x80 != 0) || back.IsRequest() == back.IsResponse() {
		fs = append(fs, vf.F("Header.IsResponse", "reply-flag-misread", "flags %#x -> IsResponse %v", c.Flags, back.IsResponse()))
	}
	// PID composition
	if pid := h.GetPID(); pid != uint32(c.PIDHigh)<<16|uint32(c.PIDLow) {
		fs = append(fs, vf.F("Header.GetPID", "pid-composition-wrong", "high %#x low %#x -> %#x", c.PIDHigh, c.PIDLow, pid))
	}
	h2 := header.NewHeader()
	h2.SetPID(uint32(c.PIDHigh)<<16 | uint32(c.PIDLow))
	if h2.PIDHigh != c.PIDHigh || h2.PIDLow != c.PIDLow {
		fs = append(fs, vf.F("Header.SetPID", "pid-decomposition-wrong", "%#x -> high %#x low %#x", uint32(c.PIDHigh)<<16|uint32(c.PIDLow), h2.PIDHigh, h2.PIDLow))
	}
	// SetPID on a header that already carries a PID (this one: assigned above; a decoded one: back) replaces both
	// halves, whatever the new value is - a 16-bit PID, zero, the halves exchanged - and the encoding carries it
	for _, hdr := range []*header.Header{h, back} {
		for _, pid := range []uint32{uint32(c.PIDLow), 0, uint32(c.PIDLow)<<16 | uint32(c.PIDHigh), uint32(c.PIDHigh) << 16} {
			before := hdr.GetPID()
			hdr.SetPID(pid)
			enc, err := hdr.Marshal()
			if hdr.GetPID() != pid || hdr.PIDHigh != uint16(pid>>16) || hdr.PIDLow != uint16(pid) {
				fs = append(fs, vf.F("Header.SetPID", "pid-not-replaced", "SetPID(%#x) on a header whose PID was %#x: GetPID %#x, high %#x low %#x", pid, before, hdr.GetPID(), hdr.PIDHigh, hdr.PIDLow))
				break
			}
			if err != nil || len(enc) != 32 || binary.LittleEndian.Uint16(enc[12:]) != uint16(pid>>16) || binary.LittleEndian.Uint16(enc[26:]) != uint16(pid) {
				fs = append(fs, vf.F("Header.Marshal", "pid-not-replaced", "SetPID(%#x) on a header whose PID was %#x: encoded %x (err %v)", pid, before, enc, err))
				break
			}
		}
	}
	return fs
}

func genHdr(t *rapid.T) hdrCase {
	d := rapid.SliceOfNDistinct(rapid.ByteRange(1, 254), 32, 32, rapid.ID[byte]).Draw(t, "bytes")
	u16 := func(i int) uint16 { return uint16(d[i]) | uint16(d[i+1])<<8 }
	c := hdrCase{Command: d[0], Status: uint32(d[1]) | uint32(d[2])<<8 | uint32(d[3])<<16 | uint32(d[4])<<24, Flags: d[5], Flags2: u16(6), PIDHigh: u16(8),
		SecKind: rapid.IntRange(0, 2).Draw(t, "secKind"), Security: append([]byte{}, d[10:18]...), Reserved: u16(18), TID: u16(20), PIDLow: u16(22), UID: u16(24), MID: u16(26)}
	if rapid.IntRange(0, 4).Draw(t, "extreme") == 0 {
		c.Status, c.Flags2, c.TID, c.UID, c.MID = rapid.SampledFrom([]uint32{0, 0xFFFFFFFF, 0xC0000022, 0x80000005}).Draw(t, "status"), 0xFFFF, 0xFFFF, 0, 0xFFFF
	}
	return c
}

func TestHeader(t *testing.T) {
	s := vf.Begin(t, P, "header-layout-roundtrip-pid")
	vf.Rapid(s, vf.N(8000, 150000), genHdr, checkHeader, func(c hdrCase) bool { return true })
}

// ---- dispatch, exhaustive -------------------------------------------------------------------------------

// MS-CIFS 2.2.2.1 command codes -> base name of the structures the library defines for them
var codeNames = map[byte]string{0x00: "CreateDirectory", 0x01: "DeleteDirectory", 0x02: "Open", 0x03: "Create", 0x04: "Close", 0x05: "Flush", 0x06: "Delete", 0x07: "Rename",
	0x08: "QueryInformation", 0x09: "SetInformation", 0x0A: "Read", 0x0B: "Write", 0x0C: "LockByteRange", 0x0D: "UnlockByteRange", 0x0E: "CreateTemporary", 0x0F: "CreateNew",
	0x10: "CheckDirectory", 0x11: "ProcessExit", 0x12: "Seek", 0x13: "LockAndRead", 0x14: "WriteAndUnlock", 0x1A: "ReadRaw", 0x1B: "ReadMpx", 0x1D: "WriteRaw", 0x1E: "WriteMpx",
	0x22: "SetInformation2", 0x23: "QueryInformation2", 0x24: "LockingAndx", 0x25: "Transaction", 0x26: "TransactionSecondary", 0x27: "Ioctl", 0x2B: "Echo", 0x2C: "WriteAndClose",
	0x2D: "OpenAndx", 0x2E: "ReadAndx", 0x2F: "WriteAndx", 0x32: "Transaction2", 0x33: "Transaction2Secondary", 0x34: "FindClose2", 0x70: "TreeConnect", 0x71: "TreeDisconnect",
	0x72: "Negotiate", 0x73: "SessionSetupAndx", 0x74: "LogoffAndx", 0x75: "TreeConnectAndx", 0x80: "QueryInformationDisk", 0x81: "Search", 0x82: "Find", 0x83: "FindUnique",
	0x84: "FindClose", 0xA0: "NtTransact", 0xA1: "NtTransactSecondary", 0xA2: "NtCreateAndx", 0xA4: "NtCancel", 0xA5: "NtRename", 0xC0: "OpenPrintFile", 0xC1: "WritePrintFile", 0xC2: "ClosePrintFile"}

// the 114 structures the library defined when the harness was written (the list C04's factory-inventory
// compares the factories with). "Implemented" below means: named here. It is deliberately not asked of
// the factories under test, so that a (code, direction) pair dropped from a factory is a violation and
// not a pair the check stops expecting.
var frozen = func() map[string]bool {
	m := map[string]bool{}
	for _, n := range strings.Fields(`CheckDirectoryRequest CheckDirectoryResponse ClosePrintFileRequest ClosePrintFileResponse CloseRequest CloseResponse CreateDirectoryRequest CreateDirectoryResponse CreateNewRequest CreateNewResponse CreateRequest CreateResponse CreateTemporaryRequest CreateTemporaryResponse DeleteDirectoryRequest DeleteDirectoryResponse DeleteRequest DeleteResponse EchoRequest EchoResponse FindClose2Request FindClose2Response FindCloseRequest FindCloseResponse FindRequest FindResponse FindUniqueRequest FindUniqueResponse FlushRequest FlushResponse IoctlRequest IoctlResponse LockAndReadRequest LockAndReadResponse LockByteRangeRequest LockByteRangeResponse LockingAndxRequest LockingAndxResponse LogoffAndxRequest LogoffAndxResponse NegotiateRequest NegotiateResponse NtCancelRequest NtCreateAndxRequest NtCreateAndxResponse NtRenameRequest NtRenameResponse NtTransactRequest NtTransactResponse NtTransactSecondaryRequest NtTransactSecondaryResponse OpenAndxRequest OpenAndxResponse OpenPrintFileRequest OpenPrintFileResponse OpenRequest OpenResponse ProcessExitRequest ProcessExitResponse QueryInformation2Request QueryInformation2Response QueryInformationDiskRequest QueryInformationDiskResponse QueryInformationRequest QueryInformationResponse ReadAndxRequest ReadAndxResponse ReadMpxRequest ReadMpxResponse ReadRawRequest ReadRequest ReadResponse RenameRequest RenameResponse SearchRequest SearchResponse SeekRequest SeekResponse SessionSetupAndxRequest SessionSetupAndxResponse SetInformation2Request SetInformation2Response SetInformationRequest SetInformationResponse Transaction2Request Transaction2Response Transaction2SecondaryRequest Transaction2SecondaryResponse TransactionRequest TransactionResponse TransactionSecondaryRequest TransactionSecondaryResponse TreeConnectAndxRequest TreeConnectAndxResponse TreeConnectRequest TreeConnectResponse TreeDisconnectRequest TreeDisconnectResponse UnlockByteRangeRequest UnlockByteRangeResponse WriteAndCloseRequest WriteAndCloseResponse WriteAndUnlockRequest WriteAndUnlockResponse WriteAndxRequest WriteAndxResponse WriteMpxRequest WriteMpxResponse WritePrintFileRequest WritePrintFileResponse WriteRawFinal WriteRawRequest WriteRequest WriteResponse`) {
		m[n] = true
	}
	return m
}()

// dispCase: one (code, direction) pair, crossed with the header's Status and with what follows the header:
// the two empty blocks (WordCount 0, ByteCount 0) or, for implemented pairs, the blocks of the
// factory-fresh structure of that pair (non-empty for every structure that has a parameter field).
// The empty blocks must be accepted by an implemented response pair under a non-zero Status (an error
// reply); the populated variant must decode at every Status.
// Which structure a message decodes to depends on the command code and the reply flag only.
type dispCase struct {
	Code   uint8  `json:"code"`
	Reply  bool   `json:"reply"`
	Status uint32 `json:"status"`
	Body   bool   `json:"default_structure_body"`
}

func checkDispatch(c dispCase) []vf.Finding {
	h := header.NewHeader()
	h.Command = codes.CommandCode(c.Code)
	h.Status = c.Status
	if c.Reply {
		h.SetFlags(0x80)
	}
	hb, _ := h.Marshal()
	subject := fmt.Sprintf("code-%#02x-%s", c.Code, map[bool]string{false: "request", true: "response"}[c.Reply])
	wire := append(hb, 0x00, 0x00, 0x00) // WordCount 0, ByteCount 0
	if c.Body {
		// implemented pairs only (the enumerator sees to that): the structure comes from the frozen
		// table, so a pair the factories no longer serve is reported here as well
		want, _ := expectedType(c)
		e, ok := smbgen.ByName(want)
		if !ok {
			return []vf.Finding{vf.F(subject, "implemented-pair-rejected", "the factories do not create %s", want)}
		}
		body, err := smbgen.NewValid(e).Marshal()
		if err != nil {
			// the command itself refuses its factory-fresh values: C04/C05's subject; there are no blocks
			// to decode, and the empty-block variant is what is left of this pair's dispatch
			return skipUnjudged("dispatch-exhaustive")
		}
		wire = append(hb, body...)
	}
	m := message.NewMessage()
	err := safeUnmarshal(m, wire)
	if err != nil {
		// An error is fine for pairs MS-CIFS does not define or the library never implemented, and for a
		// request followed by two empty blocks: only a reply can be an error reply, so for a request
		// these 35 bytes are not the encoding of any structure (the populated variant covers its dispatch).
		// The same holds for a reply whose Status is 0: header + 00 00 00 is what an ERROR reply looks
		// like, and a successful reply of a command whose response has parameter words is not these 35
		// bytes either, so at Status 0 the decoder may refuse them as well as accept them (when it accepts,
		// type and header are judged below all the same).
		if !c.Body && (!c.Reply || c.Status == 0) {
			return nil
		}
		if _, ok := expectedType(c); ok && implemented(c) {
			return []vf.Finding{vf.F(subject, "implemented-pair-rejected", "status %#x, %d bytes after the header: %v", c.Status, len(wire)-32, err)}
		}
		return nil
	}
	if m.Command == nil || reflect.ValueOf(m.Command).IsNil() {
		return []vf.Finding{vf.F(subject, "decoded-without-command", "no error and no command")}
	}
	got := reflect.TypeOf(m.Command).Elem().Name()
	if m.Command.GetCommandCode() != codes.CommandCode(c.Code) {
		return []vf.Finding{vf.F(subject, "command-code-of-decoded-structure-differs", "decoded as %s with code %#x", got, uint8(m.Command.GetCommandCode()))}
	}
	if want, ok := expectedType(c); ok && got != want {
		// WriteRaw has two response structures (interim / final): either is a WriteRaw response
		if !(c.Code == 0x1D && c.Reply && (got == "WriteRawFinal" || got == "WriteRawInterim")) {
			return []vf.Finding{vf.F(subject, "wrong-structure-for-code-and-direction", "decoded as %s, MS-CIFS designates %s", got, want)}
		}
	}
	if m.Header.Command != codes.CommandCode(c.Code) || m.Header.IsResponse() != c.Reply || uint32(m.Header.Status) != c.Status {
		return []vf.Finding{vf.F(subject, "decoded-header-fields-differ", "%+v", *m.Header)}
	}
	return nil
}

func expectedType(c dispCase) (string, bool) {
	base, ok := codeNames[c.Code]
	if !ok {
		return "", false
	}
	if c.Code == 0x1D && c.Reply {
		return "WriteRawFinal", true // the final response; the interim one is accepted as well
	}
	if c.Reply {
		return base + "Response", true
	}
	return base + "Request", true
}

func implemented(c dispCase) bool {
	n, ok := expectedType(c)
	return ok && frozen[n]
}

func TestDispatchExhaustive(t *testing.T) {
	s := vf.Begin(t, P, "dispatch-exhaustive")
	s.SetExhaustive()
	n := 0
	for code := 0; code < 256; code++ {
		for _, r := range []bool{false, true} {
			if implemented(dispCase{Code: uint8(code), Reply: r}) {
				n++
			}
		}
	}
	s.Note("all 256 command codes x reply flag x Status {0, STATUS_MORE_PROCESSING_REQUIRED, STATUS_BUFFER_OVERFLOW, 0xFFFFFFFF} with empty blocks, and the %d implemented (code, direction) pairs (frozen table; the factories serve %d) once more with the blocks of their factory-fresh structure", n, len(smbgen.Inventory()))
	if n != len(frozen) {
		t.Fatalf("INFRA: the code table designates %d of the %d frozen structures", n, len(frozen))
	}
	vf.Enum(s, func(yield func(dispCase)) {
		for code := 0; code < 256; code++ {
			for _, st := range []uint32{0, 0xC0000016, 0x80000005, 0xFFFFFFFF} {
				for _, r := range []bool{false, true} {
					c := dispCase{uint8(code), r, st, false}
					yield(c)
					if implemented(c) {
						c.Body = true
						yield(c)
					}
				}
			}
		}
	}, checkDispatch, func(c dispCase) bool { _, ok := codeNames[c.Code]; return ok })
	noteUnjudged(s, "dispatch-exhaustive")
}

// ---- framing and repeatability with populated commands -------------------------------------------------------

type msgCase struct {
	Header  hdrCase                    `json:"header"`
	Struct  string                     `json:"struct"`
	Fields  map[string]json.RawMessage `json:"fields"`
	Repeats int                        `json:"marshal_calls"`
}

func (c msgCase) build() (*message.Message, error) {
	e, ok := smbgen.ByName(c.Struct)
	if !ok {
		return nil, fmt.Errorf("unknown structure %s", c.Struct)
	}
	cmd := smbgen.New(e)
	if err := smbgen.Restore(cmd, c.Fields); err != nil {
		return nil, err
	}
	m := message.NewMessage()
	m.Header = c.Header.lib()
	m.AddCommand(cmd)
	if e.Response {
		m.Header.SetFlags(c.Header.Flags | 0x80)
	} else {
		m.Header.SetFlags(c.Header.Flags &^ 0x80)
	}
	return m, nil
}

func frame(wire []byte) (wc int, words, data []byte, err error) {
	if len(wire) < 35 {
		return 0, nil, nil, fmt.Errorf("message of %d bytes shorter than header + counts", len(wire))
	}
	wc = int(wire[32])
	if len(wire) < 33+2*wc+2 {
		return wc, nil, nil, fmt.Errorf("word count %d does not fit a %d-byte message", wc, len(wire))
	}
	words = wire[33 : 33+2*wc]
	bc := int(binary.LittleEndian.Uint16(wire[33+2*wc:]))
	if len(wire) != 32+1+2*wc+2+bc {
		return wc, words, nil, fmt.Errorf("length %d != 32+1+2*%d+2+%d", len(wire), wc, bc)
	}
	return wc, words, wire[35+2*wc:], nil
}

func checkFraming(c msgCase) []vf.Finding {
	m, err := c.build()
	if err != nil {
		return []vf.Finding{vf.F("harness", "bad-case", "%v", err)}
	}
	wire, err := m.Marshal()
	if err != nil {
		if c.commandRefuses() {
			return skipUnjudged("framing")
		}
		return []vf.Finding{vf.F(c.Struct, "marshal-error", "the command encodes on its own, the message does not: %v", err)}
	}
	var fs []vf.Finding
	if len(wire) < 32 || !bytes.Equal(wire[:32], mustHeader(m)) {
		fs = append(fs, vf.F(c.Struct, "message-does-not-start-with-its-header", ""))
	}
	if wire[4] != uint8(m.Command.GetCommandCode()) {
		fs = append(fs, vf.F(c.Struct, "header-command-differs-from-command-structure", "header %#x structure %#x", wire[4], uint8(m.Command.GetCommandCode())))
	}
	if _, _, _, err := frame(wire); err != nil {
		fs = append(fs, vf.F(c.Struct, "framing-counts-do-not-match-emitted-lengths", "%v", err))
	}
	// decode: same header fields and a structure of the same type. A populated, well-framed message that
	// the library produced and cannot read back is a violation whatever the reason (the kind tells an
	// error from a panic, not the wording).
	back := message.NewMessage()
	if err := safeUnmarshal(back, wire); err != nil {
		if len(fs) == 0 {
			kind := "decode-error"
			if strings.HasPrefix(err.Error(), "panic:") {
				kind = "decode-panic"
			}
			fs = append(fs, vf.F(c.Struct, kind, "own encoding (%d bytes, status %#x) rejected: %v", len(wire), c.Header.Status, err))
		}
	} else if back.Command == nil || reflect.ValueOf(back.Command).IsNil() {
		fs = append(fs, vf.F(c.Struct, "decoded-without-command", "no error and no command"))
	} else {
		if got := reflect.TypeOf(back.Command).Elem().Name(); got != c.Struct && !(c.Struct == "WriteRawFinal" || c.Struct == "WriteRawInterim") {
			fs = append(fs, vf.F(c.Struct, "wrong-structure-for-code-and-direction", "decoded as %s", got))
		}
		hb, _ := back.Header.Marshal()
		if !bytes.Equal(hb, wire[:32]) {
			fs = append(fs, vf.F(c.Struct, "decoded-header-fields-differ", "%x vs %x", hb, wire[:32]))
		}
	}
	return fs
}

func mustHeader(m *message.Message) []byte { b, _ := m.Header.Marshal(); return b }

func safeUnmarshal(m *message.Message, wire []byte) (err error) {
	defer func() {
		if r := recover(); r != nil {
			err = fmt.Errorf("panic: %v", r)
		}
	}()
	return m.Unmarshal(wire)
}

// commandRefuses reports whether a command structure, encoded on its own (not through a Message), returns
// an error. Which assignments of its fields a command encodes is the subject of C04/C05; the envelope is
// judged on the messages whose command does encode. A refusal by Message.Marshal of a message whose
// command encodes on its own remains a finding, and so does a panic.
func commandRefuses(cmd smbgen.Cmd) (refused bool) {
	defer func() {
		if recover() != nil {
			refused = false
		}
	}()
	_, err := cmd.Marshal()
	return err != nil
}

// commandRefuses: the same question for the command of a case, asked of a newly built copy.
func (c msgCase) commandRefuses() bool {
	m, err := c.build()
	return err == nil && commandRefuses(m.Command)
}

// notJudged counts, per sub-check, the cases left unjudged because the command alone refuses to encode.
var notJudged = struct {
	sync.Mutex
	n map[string]int64
}{n: map[string]int64{}}

func skipUnjudged(sub string) []vf.Finding {
	notJudged.Lock()
	notJudged.n[sub]++
	notJudged.Unlock()
	return nil
}

func noteUnjudged(s *vf.Sub, sub string) {
	notJudged.Lock()
	defer notJudged.Unlock()
	s.Count("not-judged:command-alone-refuses-to-encode", notJudged.n[sub])
}

// genMsg draws a structure and fills it; maxBytes bounds every single buffer. All buffers of a structure
// share one data block of at most 65535 bytes (ByteCount is 16 bits), so the bound is lowered to what
// the structure's buffers can reach together (a pad that mirrors another buffer's length counts twice).
func genMsg(t *rapid.T, maxBytes int) msgCase {
	names := smbgen.Names()
	name := names[rapid.IntRange(0, len(names)-1).Draw(t, "struct")]
	e, _ := smbgen.ByName(name)
	cmd := smbgen.New(e)
	buffers := 0
	for _, f := range smbgen.OwnFields(cmd) {
		if smbgen.IsByteField(f.Type) {
			buffers++
			if _, mirrored := smbgen.CountFor(name, f.Name); mirrored {
				buffers++
			}
		}
	}
	if buffers > 0 && maxBytes > 64000/buffers {
		maxBytes = 64000 / buffers
	}
	smbgen.Fill(t, cmd, smbgen.Options{MaxBytes: maxBytes})
	return msgCase{genHdr(t), name, smbgen.Snapshot(cmd), rapid.IntRange(2, 5).Draw(t, "repeats")}
}

func TestFraming(t *testing.T) {
	s := vf.Begin(t, P, "framing")
	vf.Rapid(s, vf.N(114*25, 114*600), func(t *rapid.T) msgCase {
		max := 64
		if rapid.IntRange(0, 19).Draw(t, "big") == 0 {
			max = vf.Size(2000, 60000)
		}
		return genMsg(t, max)
	}, checkFraming, func(c msgCase) bool { return len(c.Fields) > 0 })
	noteUnjudged(s, "framing")
}

// ---- repeatability: every Marshal of one message yields the same bytes ------------------------------------------

func checkRepeat(c msgCase) []vf.Finding {
	m, err := c.build()
	if err != nil {
		return []vf.Finding{vf.F("harness", "bad-case", "%v", err)}
	}
	first, err := m.Marshal()
	if err != nil {
		if c.commandRefuses() {
			return skipUnjudged("repeat-marshal")
		}
		return []vf.Finding{vf.F(c.Struct, "marshal-error", "the command encodes on its own, the message does not: %v", err)}
	}
	first = append([]byte{}, first...)
	wc1, words1, data1, ferr := frame(first)
	for k := 2; k <= c.Repeats; k++ {
		next, err := m.Marshal()
		if err != nil {
			return []vf.Finding{vf.F(c.Struct, "repeated-marshal-fails", "call %d: %v", k, err)}
		}
		if bytes.Equal(next, first) {
			continue
		}
		// the recorded systemic finding: call k appends the blocks once more. Anything else is new.
		if ferr == nil {
			wc, words, data, err := frame(next)
			if err == nil && wc == k*wc1 && bytes.Equal(words, bytes.Repeat(words1, k)) && bytes.Equal(data, bytes.Repeat(data1, k)) {
				return []vf.Finding{vf.F(c.Struct, "second-marshal-appends-first", "call %d of Marshal emits %d words / %d data bytes, the first call %d / %d: the parameter and data blocks accumulate", k, wc, len(data), wc1, len(data1))}
			}
		}
		return []vf.Finding{vf.F(c.Struct, "repeated-marshal-differs", "call %d: %d bytes vs %d; not the accumulation pattern", k, len(next), len(first))}
	}
	return nil
}

func TestRepeatMarshal(t *testing.T) {
	s := vf.Begin(t, P, "repeat-marshal")
	names := smbgen.Names()
	per := vf.N(6, 100)
	idx := 0
	vf.Rapid(s, len(names)*per, func(t *rapid.T) msgCase {
		name := names[(idx/per)%len(names)]
		idx++
		e, _ := smbgen.ByName(name)
		cmd := smbgen.New(e)
		smbgen.Fill(t, cmd, smbgen.Options{MaxBytes: 24})
		return msgCase{genHdr(t), name, smbgen.Snapshot(cmd), rapid.IntRange(2, 5).Draw(t, "repeats")}
	}, checkRepeat, func(c msgCase) bool { return c.Repeats >= 2 })
	noteUnjudged(s, "repeat-marshal")
}

// ---- the bytes Marshal returned stay what they were -------------------------------------------------------------
//
// "Encoding ... and decoding the bytes returns the same header fields": the bytes are the caller's from the moment
// Marshal returns them - they are queued, signed or sent later. Several headers (and several messages) are encoded
// one after the other, every result is kept as returned (not copied) next to a snapshot of it, and after the last
// call every kept slice must still equal its snapshot and, for headers, decode to the fields of the header it
// came from. (An encoder that builds into a recycled buffer passes every check that looks at one result before
// the next call is made.)

type keptCase struct {
	Headers  []hdrCase `json:"headers"`
	Messages []msgCase `json:"messages,omitempty"`
}

func checkKept(c keptCase) []vf.Finding {
	type kept struct {
		who  string
		got  []byte
		snap []byte
		hdr  *hdrCase
	}
	var ks []kept
	for i := range c.Headers {
		got, err := c.Headers[i].lib().Marshal()
		if err != nil {
			continue // header-layout-roundtrip-pid reports a header that does not encode
		}
		ks = append(ks, kept{"Header.Marshal", got, append([]byte{}, got...), &c.Headers[i]})
	}
	for _, mc := range c.Messages {
		m, err := mc.build()
		if err != nil {
			return []vf.Finding{vf.F("harness", "bad-case", "%v", err)}
		}
		got, err := m.Marshal()
		if err != nil {
			continue // framing / repeat-marshal report a message that does not encode
		}
		ks = append(ks, kept{"Message.Marshal", got, append([]byte{}, got...), nil})
	}
	for i, k := range ks {
		if !bytes.Equal(k.got, k.snap) {
			d := 0
			for d < len(k.got) && k.got[d] == k.snap[d] {
				d++
			}
			return []vf.Finding{vf.F(k.who, "returned-bytes-changed-by-later-call", "result %d of %d (%d bytes) differs from byte %d on after the later calls: was %x, is %x", i+1, len(ks), len(k.snap), d, k.snap[d:min(len(k.snap), d+12)], k.got[d:min(len(k.got), d+12)])}
		}
		if k.hdr != nil {
			back := header.NewHeader()
			if n, err := back.Unmarshal(k.got); err != nil || n != 32 {
				continue // a header that does not decode from its own bytes at once is header-layout-roundtrip-pid's finding
			}
			if bytes.Equal(k.snap, k.hdr.ref()) && (back.Command != codes.CommandCode(k.hdr.Command) || back.Status != k.hdr.Status || back.TID != k.hdr.TID || back.UID != k.hdr.UID || back.MID != k.hdr.MID) {
				return []vf.Finding{vf.F(k.who, "returned-bytes-changed-by-later-call", "result %d of %d decodes to command %#x status %#x tid %#x uid %#x mid %#x, encoded was %+v", i+1, len(ks), uint8(back.Command), back.Status, back.TID, back.UID, back.MID, *k.hdr)}
			}
		}
	}
	return nil
}

func TestMarshalResultsKept(t *testing.T) {
	s := vf.Begin(t, P, "marshal-results-kept")
	vf.Rapid(s, vf.N(3000, 40000), func(t *rapid.T) keptCase {
		var c keptCase
		for i, n := 0, rapid.IntRange(2, 6).Draw(t, "headers"); i < n; i++ {
			c.Headers = append(c.Headers, genHdr(t))
		}
		for i, n := 0, rapid.IntRange(0, 3).Draw(t, "messages"); i < n; i++ {
			c.Messages = append(c.Messages, genMsg(t, 24))
		}
		return c
	}, checkKept, func(c keptCase) bool {
		return len(c.Headers) >= 2 && !bytes.Equal(c.Headers[0].ref(), c.Headers[1].ref())
	})
}

// ---- the counts that introduce the blocks, after any history of the block ---------------------------------------
//
// "The parameter and data blocks are introduced by a word count and a byte count equal to the lengths actually
// emitted." Data.Add and Data.SetData are documented to update ByteCount "to reflect the new length of the Bytes
// field", Parameters.AddWord and AddWordsFromBytesStream to update WordCount "to reflect the new count" - whatever
// the block went through before: built by the constructor or as a struct literal with its content assigned, a
// decode that succeeded, a decode that failed half-way (a truncated block: the claimed count has been read, the
// content has not). After a history that ends in one of these calls the block must encode with a count equal to
// what follows it. (An update that adds to the old count instead of taking the length is right only as long as
// count and length agreed before.)

type histStep struct {
	Op    string `json:"op"` // add, set, addword, addwords, decode, decode-truncated
	Bytes vf.Hex `json:"bytes,omitempty"`
	Word  uint16 `json:"word,omitempty"`
}

type histCase struct {
	Block   string     `json:"block"` // Data, Parameters
	Literal vf.Hex     `json:"struct_literal_content,omitempty"`
	Steps   []histStep `json:"steps"`
}

func checkBlockHistory(c histCase) []vf.Finding {
	last := c.Steps[len(c.Steps)-1].Op
	// a final call that adds nothing (an empty Add, a stream of less than one word) may be a no-op: only a call
	// that adds something is held to have brought the count up to date
	if lb := len(c.Steps[len(c.Steps)-1].Bytes); last == "add" && lb == 0 || last == "addwords" && lb < 2 {
		return nil
	}
	switch c.Block {
	case "Data":
		d := datablock.NewData()
		if c.Literal != nil {
			d = &datablock.Data{Bytes: append([]byte{}, c.Literal...)}
		}
		for _, st := range c.Steps {
			switch st.Op {
			case "add":
				d.Add(append([]byte{}, st.Bytes...))
			case "set":
				d.SetData(append([]byte{}, st.Bytes...))
			case "decode":
				safeBlock(d, append([]byte{byte(len(st.Bytes)), byte(len(st.Bytes) >> 8)}, st.Bytes...))
			case "decode-truncated":
				n := len(st.Bytes) + 1 + int(st.Word%7)
				safeBlock(d, append([]byte{byte(n), byte(n >> 8)}, st.Bytes...))
			}
		}
		if len(d.Bytes) > 65535 {
			return nil
		}
		enc, err := d.Marshal()
		if err != nil {
			return []vf.Finding{vf.F("Data."+last, "block-refused-after-history", "%v", err)}
		}
		if len(enc) < 2 || int(enc[0])|int(enc[1])<<8 != len(enc)-2 {
			return []vf.Finding{vf.F("Data."+last, "count-differs-from-emitted-length", "after %d calls ending in %s the block is emitted as count %d followed by %d bytes (ByteCount %d, %d bytes held)", len(c.Steps), last, int(enc[0])|int(enc[1])<<8, len(enc)-2, d.ByteCount, len(d.Bytes))}
		}
	case "Parameters":
		p := parameters.NewParameters()
		if c.Literal != nil {
			p = &parameters.Parameters{}
			for i := 0; i+1 < len(c.Literal); i += 2 {
				p.Words = append(p.Words, uint16(c.Literal[i])<<8|uint16(c.Literal[i+1]))
			}
		}
		for _, st := range c.Steps {
			switch st.Op {
			case "addword":
				p.AddWord(st.Word)
			case "addwords":
				p.AddWordsFromBytesStream(append([]byte{}, st.Bytes[:len(st.Bytes)&^1]...))
			case "decode":
				b := st.Bytes[:len(st.Bytes)&^1]
				safeBlock(p, append([]byte{byte(len(b) / 2)}, b...))
			case "decode-truncated":
				b := st.Bytes[:len(st.Bytes)&^1]
				safeBlock(p, append([]byte{byte(len(b)/2 + 1 + int(st.Word%7))}, b...))
			}
		}
		if len(p.Words) > 255 {
			return nil
		}
		enc, err := func() (b []byte, err error) {
			defer func() {
				if r := recover(); r != nil {
					err = fmt.Errorf("panic: %v", r)
				}
			}()
			return p.Marshal()
		}()
		if err != nil {
			return []vf.Finding{vf.F("Parameters."+last, "block-refused-after-history", "after %d calls ending in %s (WordCount %d, %d words held): %v", len(c.Steps), last, p.WordCount, len(p.Words), err)}
		}
		if len(enc) < 1 || 2*int(enc[0]) != len(enc)-1 {
			return []vf.Finding{vf.F("Parameters."+last, "count-differs-from-emitted-length", "after %d calls ending in %s the block is emitted as count %d followed by %d bytes (WordCount %d, %d words held)", len(c.Steps), last, enc[0], len(enc)-1, p.WordCount, len(p.Words))}
		}
	default:
		return []vf.Finding{vf.F("harness", "bad-case", "block %q", c.Block)}
	}
	return nil
}

func TestBlockHistories(t *testing.T) {
	s := vf.Begin(t, P, "block-counts-after-histories")
	vf.Rapid(s, vf.N(6000, 80000), func(t *rapid.T) histCase {
		c := histCase{Block: rapid.SampledFrom([]string{"Data", "Parameters"}).Draw(t, "block")}
		if rapid.IntRange(0, 3).Draw(t, "literal") == 0 {
			c.Literal = rapid.SliceOfN(rapid.Byte(), 0, 12).Draw(t, "content")
			if c.Literal == nil {
				c.Literal = vf.Hex{}
			}
		}
		mut, all := []string{"add", "set"}, []string{"add", "set", "decode", "decode-truncated", "decode-truncated"}
		if c.Block == "Parameters" {
			mut, all = []string{"addword", "addwords"}, []string{"addword", "addwords", "decode", "decode-truncated", "decode-truncated"}
		}
		n := rapid.IntRange(1, 5).Draw(t, "steps")
		for i := 0; i < n; i++ {
			ops := all
			if i == n-1 {
				ops = mut // the history ends in a call that is documented to set the count from the length
			}
			minLen := 0
			if i == n-1 {
				minLen = 2 // the last call adds something
			}
			c.Steps = append(c.Steps, histStep{Op: rapid.SampledFrom(ops).Draw(t, "op"), Bytes: rapid.SliceOfN(rapid.Byte(), minLen, 10).Draw(t, "bytes"), Word: rapid.Uint16().Draw(t, "word")})
		}
		return c
	}, func(c histCase) []vf.Finding {
		for _, st := range c.Steps {
			if st.Op == "decode-truncated" {
				s.Class("history-with-a-failed-decode")
				break
			}
		}
		if c.Literal != nil {
			s.Class("struct-literal")
		}
		return checkBlockHistory(c)
	}, func(c histCase) bool { return len(c.Steps) >= 2 || c.Literal != nil })
}

// ---- block sizes up to the 255-word / 65535-byte limits ---------------------------------------------------
//
// No command structure emits more than a few dozen words, so the limits are reached with raw wire
// bytes: a parameter block of w words followed by a data block of b bytes. They are decoded by the two
// block types themselves, chained exactly as every command decoder chains them (Parameters.Unmarshal,
// then Data.Unmarshal on what the first did not consume): exactly 2*w bytes must be attributed to the
// words and exactly b bytes to the data, whatever w and b are. A whole message is decoded only with
// the word count the structure has: an SMB_COM_ECHO request (one word, EchoCount; data block = echo
// data) crossed with every byte count. What the Echo decoder does with another word count is not asked
// (such bytes are not the encoding of an Echo request: it may refuse them). The decoded message is judged
// by its fields (EchoCount, Data), not by the blocks a decoder may or may not keep in the command.

type blockCase struct {
	Words int `json:"words"`
	Bytes int `json:"bytes"`
}

// echoRequestWords: MS-CIFS 2.2.4.39.1, WordCount of an SMB_COM_ECHO request
const echoRequestWords = 1

func safeBlock(u interface{ Unmarshal([]byte) (int, error) }, b []byte) (n int, err error) {
	defer func() {
		if r := recover(); r != nil {
			err = fmt.Errorf("panic: %v", r)
		}
	}()
	return u.Unmarshal(b)
}

func checkBlockLimits(c blockCase) []vf.Finding {
	words := make([]byte, 2*c.Words)
	for i := range words {
		words[i] = byte(0x21 + i%0x5d)
	}
	content := make([]byte, c.Bytes)
	for i := range content {
		content[i] = byte(0xA0 + i%0x53)
	}
	// exact capacity: a read past the end must not land in spare capacity
	blocks := make([]byte, 0, 1+len(words)+2+len(content))
	blocks = append(blocks, byte(c.Words))
	blocks = append(blocks, words...)
	blocks = append(blocks, byte(c.Bytes), byte(c.Bytes>>8))
	blocks = append(blocks, content...)

	var fs []vf.Finding
	// encode side: the same two blocks built through the library must come out as these bytes – count bytes AND
	// contents (a block whose length is right but whose words were written to the wrong places passes a
	// length-only test)
	func() {
		defer func() {
			if r := recover(); r != nil {
				fs = append(fs, vf.F("Parameters.Marshal", "marshal-panic", "%d words, %d bytes: %v", c.Words, c.Bytes, r))
			}
		}()
		ep := parameters.NewParameters()
		ep.AddWordsFromBytesStream(append([]byte{}, words...))
		ed := datablock.NewData()
		ed.Add(append([]byte{}, content...))
		pb, perr := ep.Marshal()
		db, derr := ed.Marshal()
		if perr != nil || derr != nil {
			fs = append(fs, vf.F("Parameters.Marshal", "in-limit-block-refused", "%d words, %d bytes: %v / %v", c.Words, c.Bytes, perr, derr))
			return
		}
		if !bytes.Equal(append(append([]byte{}, pb...), db...), blocks) {
			at := 0
			got := append(append([]byte{}, pb...), db...)
			for at < len(got) && at < len(blocks) && got[at] == blocks[at] {
				at++
			}
			who := "Parameters.Marshal"
			if at >= len(pb) {
				who = "Data.Marshal"
			}
			fs = append(fs, vf.F(who, "emitted-block-differs", "%d words, %d bytes: %d bytes emitted, %d expected, first difference at offset %d", c.Words, c.Bytes, len(got), len(blocks), at))
		}
		// The same parameter block built the way every AndX structure builds its own: the words of the AndX
		// block (two words) first, the structure's words behind them in a second call. The count byte must
		// count all of them and the block must be the same bytes.
		if c.Words >= 3 && c.Bytes == 0 {
			sp := parameters.NewParameters()
			sp.AddWordsFromBytesStream(append([]byte{}, words[:4]...))
			sp.AddWordsFromBytesStream(append([]byte{}, words[4:]...))
			switch sb, serr := sp.Marshal(); {
			case serr != nil:
				fs = append(fs, vf.F("Parameters.Marshal", "block-built-in-two-calls-refused", "2 + %d words: %v", c.Words-2, serr))
			case !bytes.Equal(sb, pb):
				fs = append(fs, vf.F("Parameters.Marshal", "block-built-in-two-calls-differs", "2 + %d words: %d bytes emitted with count byte %#x, %d bytes with count byte %#x when built in one call", c.Words-2, len(sb), sb[:min(1, len(sb))], len(pb), pb[:min(1, len(pb))]))
			}
		}
	}()
	p := parameters.NewParameters()
	n, err := safeBlock(p, blocks)
	if err != nil {
		return append(fs, vf.F("Parameters.Unmarshal", "well-framed-block-rejected", "%d words, %d bytes: %v", c.Words, c.Bytes, err))
	}
	if n != 1+2*c.Words || int(p.WordCount) != c.Words || !bytes.Equal(p.GetBytes(), words) {
		fs = append(fs, vf.F("Parameters.Unmarshal", "parameter-block-misframed", "%d words on the wire, decoded %d words (%d bytes), consumed %d bytes", c.Words, p.WordCount, len(p.GetBytes()), n))
	}
	if n < 0 || n > len(blocks) {
		return fs
	}
	d := datablock.NewData()
	n2, err := safeBlock(d, blocks[n:])
	if err != nil {
		return append(fs, vf.F("Data.Unmarshal", "well-framed-block-rejected", "%d words, %d bytes: %v", c.Words, c.Bytes, err))
	}
	if n2 != 2+c.Bytes || int(d.ByteCount) != c.Bytes || !bytes.Equal(d.GetBytes(), content) {
		got := d.GetBytes()
		fs = append(fs, vf.F("Data.Unmarshal", "data-block-misframed", "%d words / %d bytes on the wire: decoded byte count %d, consumed %d, first data bytes %x want %x", c.Words, c.Bytes, d.ByteCount, n2, got[:min(len(got), 6)], content[:min(len(content), 6)]))
	}
	if c.Words != echoRequestWords {
		return fs
	}

	// the whole message, with the structure's own word count
	h := header.NewHeader()
	h.Command = codes.CommandCode(0x2B)
	hb, _ := h.Marshal()
	wire := make([]byte, 0, len(hb)+len(blocks))
	wire = append(append(wire, hb...), blocks...)
	m := message.NewMessage()
	if err := safeUnmarshal(m, wire); err != nil {
		return append(fs, vf.F("Message.Unmarshal", "well-framed-message-rejected", "%d words, %d bytes: %v", c.Words, c.Bytes, err))
	}
	if m.Command == nil || reflect.ValueOf(m.Command).IsNil() {
		return append(fs, vf.F("Message.Unmarshal", "decoded-without-command", "no error and no command"))
	}
	rv := reflect.ValueOf(m.Command).Elem()
	count, echo := rv.FieldByName("EchoCount"), rv.FieldByName("Data")
	if !count.IsValid() || !count.CanUint() || !echo.IsValid() || echo.Kind() != reflect.Slice || echo.Type().Elem().Kind() != reflect.Uint8 {
		return append(fs, vf.F("Message.Unmarshal", "wrong-structure-for-code-and-direction", "an Echo request decoded as %T", m.Command))
	}
	if want := uint64(binary.LittleEndian.Uint16(words)); count.Uint() != want {
		fs = append(fs, vf.F("EchoRequest", "decoded-blocks-differ", "%d data bytes: EchoCount %#x, the parameter word on the wire is %#x", c.Bytes, count.Uint(), want))
	}
	if got := echo.Bytes(); !bytes.Equal(got, content) {
		fs = append(fs, vf.F("EchoRequest", "decoded-blocks-differ", "%d data bytes on the wire: %d decoded, first data bytes %x want %x", c.Bytes, len(got), got[:min(len(got), 6)], content[:min(len(content), 6)]))
	}
	return fs
}

func TestBlockLimits(t *testing.T) {
	s := vf.Begin(t, P, "block-limits-exhaustive")
	s.SetExhaustive()
	s.Note("every word count 0..255 crossed with byte counts {0,1,2,255,256,257,4096,65534,65535} through Parameters.Unmarshal + Data.Unmarshal; whole Echo request messages (word count %d) with each of these byte counts", echoRequestWords)
	vf.Enum(s, func(yield func(blockCase)) {
		for w := 0; w <= 255; w++ {
			for _, b := range []int{0, 1, 2, 255, 256, 257, 4096, 65534, 65535} {
				yield(blockCase{w, b})
			}
		}
	}, checkBlockLimits, func(c blockCase) bool { return c.Words > 0 && c.Bytes > 0 })
}

// ---- the same limits from the encoding side ------------------------------------------------------------
//
// SMB_COM_ECHO carries an arbitrary data block in both directions, so its structures reach the byte-count
// limit through message.Marshal: data of 0 .. 65535 bytes (ByteCount is 16 bits; the 37 bytes in front of
// the data come on top, so the message itself is longer than 65535 bytes from 65499 data bytes on, which
// the property allows: its length is 32 + 1 + 2*words + 2 + bytes). The bytes must be framed exactly
// and decode back to the same header, structure type, word and data.

type limitCase struct {
	Reply bool   `json:"reply"`
	Len   int    `json:"data_len"`
	Word  uint16 `json:"word"` // EchoCount / SequenceNumber
	Seed  uint8  `json:"seed"` // data byte i is Seed + i*7
}

func checkEncodeLimits(c limitCase) []vf.Finding {
	name := map[bool]string{false: "EchoRequest", true: "EchoResponse"}[c.Reply]
	e, ok := smbgen.ByName(name)
	if !ok {
		return []vf.Finding{vf.F(name, "implemented-pair-rejected", "the factories do not create %s", name)}
	}
	data := make([]byte, c.Len)
	for i := range data {
		data[i] = c.Seed + byte(i*7)
	}
	// the one parameter word and the data, by name: where a field stands in the declaration is not asked here
	word := map[bool]string{false: "EchoCount", true: "SequenceNumber"}[c.Reply]
	echoFields := func(cmd smbgen.Cmd) (w, d reflect.Value, ok bool) {
		rv := reflect.ValueOf(cmd).Elem()
		w, d = rv.FieldByName(word), rv.FieldByName("Data")
		ok = w.IsValid() && w.CanUint() && d.IsValid() && d.Kind() == reflect.Slice && d.Type().Elem().Kind() == reflect.Uint8
		return
	}
	cmd := smbgen.New(e)
	wf, df, ok := echoFields(cmd)
	if !ok {
		return []vf.Finding{vf.F(name, "wrong-structure-for-code-and-direction", "the factories serve SMB_COM_ECHO with %T, which has no %s / Data", cmd, word)}
	}
	wf.SetUint(uint64(c.Word))
	df.SetBytes(append([]byte{}, data...))
	m := message.NewMessage()
	m.Header.Status = 0x01020304
	m.Header.MID = 0x0506
	if c.Reply {
		m.Header.SetFlags(0x80)
	}
	m.AddCommand(cmd)
	wire, err := m.Marshal()
	if err != nil {
		return []vf.Finding{vf.F(name, "marshal-error", "%d data bytes: %v", c.Len, err)}
	}
	var fs []vf.Finding
	wc, words, got, ferr := frame(wire)
	switch {
	case ferr != nil:
		fs = append(fs, vf.F(name, "framing-counts-do-not-match-emitted-lengths", "%d data bytes: %v", c.Len, ferr))
	case wc != 1 || len(wire) != 32+1+2+2+c.Len:
		fs = append(fs, vf.F(name, "framing-counts-do-not-match-emitted-lengths", "%d data bytes: %d words, message of %d bytes", c.Len, wc, len(wire)))
	case !bytes.Equal(got, data) || !bytes.Equal(words, []byte{byte(c.Word), byte(c.Word >> 8)}):
		fs = append(fs, vf.F(name, "block-content-differs", "%d data bytes: words %x, first data bytes %x want %x", c.Len, words, got[:min(len(got), 6)], data[:min(len(data), 6)]))
	}
	if len(wire) < 32 || !bytes.Equal(wire[:32], mustHeader(m)) {
		fs = append(fs, vf.F(name, "message-does-not-start-with-its-header", ""))
	}
	back := message.NewMessage()
	if err := safeUnmarshal(back, wire); err != nil {
		kind := "decode-error"
		if strings.HasPrefix(err.Error(), "panic:") {
			kind = "decode-panic"
		}
		return append(fs, vf.F(name, kind, "own encoding with %d data bytes rejected: %v", c.Len, err))
	}
	if back.Command == nil || reflect.ValueOf(back.Command).IsNil() || reflect.TypeOf(back.Command).Elem().Name() != name {
		return append(fs, vf.F(name, "wrong-structure-for-code-and-direction", "decoded as %T", back.Command))
	}
	if hb, _ := back.Header.Marshal(); !bytes.Equal(hb, wire[:32]) {
		fs = append(fs, vf.F(name, "decoded-header-fields-differ", "%x vs %x", hb, wire[:32]))
	}
	bw, bd, ok := echoFields(back.Command)
	if !ok {
		return append(fs, vf.F(name, "wrong-structure-for-code-and-direction", "decoded as %T", back.Command))
	}
	if bw.Uint() != uint64(c.Word) || !bytes.Equal(bd.Bytes(), data) {
		fs = append(fs, vf.F(name, "decoded-blocks-differ", "%d data bytes: %s %#x, %d data bytes decoded", c.Len, word, bw.Uint(), bd.Len()))
	}
	return fs
}

func TestEncodeLimits(t *testing.T) {
	s := vf.Begin(t, P, "encode-block-limits")
	s.SetExhaustive()
	lens := []int{0, 1, 2, 255, 256, 257, 4096, 32767, 32768, 65497, 65498, 65499, 65500, 65533, 65534, 65535}
	s.Note("EchoRequest and EchoResponse through message.Marshal with data blocks of %v bytes", lens)
	vf.Enum(s, func(yield func(limitCase)) {
		for _, r := range []bool{false, true} {
			for i, n := range lens {
				yield(limitCase{r, n, 0x0102 + uint16(i)<<8, byte(0x30 + i)})
			}
		}
	}, checkEncodeLimits, func(c limitCase) bool { return c.Len > 0 })
}

// ---- one Message value decoding several packets in a row -----------------------------------------------------
//
// A Message is a receiver the caller may keep and reuse for the next packet. What it decodes must depend on the
// packet alone: after decoding packet A, decoding packet B into the same value must give what a new Message gives
// for B – the structure type the header's code and reply flag designate, the same header, and the same bytes
// when encoded again. Pairs are biased towards the same command code in the opposite direction, the same
// structure twice, and an empty-bodied (error) reply after a populated one.

type reuseCase struct {
	First  msgCase `json:"first_packet"`
	Second msgCase `json:"second_packet"`
	// SecondEmpty: the second packet is the bare header of Second plus empty blocks (an error reply)
	SecondEmpty bool `json:"second_has_empty_blocks,omitempty"`
}

func wireOf(c msgCase, empty bool) ([]byte, error) {
	m, err := c.build()
	if err != nil {
		return nil, err
	}
	wire, err := m.Marshal()
	if err != nil {
		return nil, err
	}
	if empty {
		wire = append(append([]byte{}, wire[:32]...), 0, 0, 0)
	}
	return wire, nil
}

func describe(m *message.Message) (typ string, hdr []byte, again []byte, err error) {
	if m.Command == nil || reflect.ValueOf(m.Command).IsNil() {
		return "", nil, nil, fmt.Errorf("no command")
	}
	typ = reflect.TypeOf(m.Command).Elem().Name()
	hdr, _ = m.Header.Marshal()
	defer func() {
		if r := recover(); r != nil {
			err = fmt.Errorf("panic: %v", r)
		}
	}()
	again, err = m.Marshal()
	return
}

func checkMessageReuse(c reuseCase) []vf.Finding {
	w1, err1 := wireOf(c.First, false)
	w2, err2 := wireOf(c.Second, c.SecondEmpty)
	if err1 != nil || err2 != nil {
		return nil // not encodable: framing judges that (a refusal by the command alone is C04/C05's subject)
	}
	fresh := message.NewMessage()
	if err := safeUnmarshal(fresh, append([]byte{}, w2...)); err != nil {
		return nil // the second packet does not decode on its own: reported by framing / dispatch
	}
	reused := message.NewMessage()
	safeUnmarshal(reused, append([]byte{}, w1...)) // outcome irrelevant: it only leaves state behind
	subject := c.Second.Struct
	if err := safeUnmarshal(reused, append([]byte{}, w2...)); err != nil {
		return []vf.Finding{vf.F(subject, "reused-message-rejects-packet-a-new-one-accepts", "after a %s packet: %v", c.First.Struct, err)}
	}
	ft, fh, fa, ferr := describe(fresh)
	rt, rh, ra, rerr := describe(reused)
	var fs []vf.Finding
	if ft != rt {
		fs = append(fs, vf.F(subject, "reused-message-decodes-to-another-structure", "after a %s packet the %s packet (code %#x, reply %v) decodes as %s, a new Message gives %s", c.First.Struct, c.Second.Struct, w2[4], w2[9]&0x80 != 0, rt, ft))
		return fs
	}
	if !bytes.Equal(fh, rh) {
		fs = append(fs, vf.F(subject, "reused-message-header-differs", "%x vs %x", rh, fh))
	}
	if (ferr == nil) != (rerr == nil) || (ferr == nil && !bytes.Equal(fa, ra)) {
		fs = append(fs, vf.F(subject, "reused-message-reencodes-differently", "after a %s packet: %d bytes (err %v), a new Message gives %d bytes (err %v)", c.First.Struct, len(ra), rerr, len(fa), ferr))
	}
	return fs
}

func TestMessageReuse(t *testing.T) {
	s := vf.Begin(t, P, "message-receiver-reuse")
	counterpart := map[string]string{}
	for _, e := range smbgen.Inventory() {
		for _, o := range smbgen.Inventory() {
			if o.Code == e.Code && o.Response != e.Response {
				counterpart[e.Name] = o.Name
			}
		}
	}
	fill := func(t *rapid.T, name string) msgCase {
		e, _ := smbgen.ByName(name)
		cmd := smbgen.New(e)
		rapid.Bool().Draw(t, "_")
		smbgen.Fill(t, cmd, smbgen.Options{MaxBytes: 24})
		return msgCase{genHdr(t), name, smbgen.Snapshot(cmd), 0}
	}
	vf.Rapid(s, vf.N(114*12, 114*300), func(t *rapid.T) reuseCase {
		first := genMsg(t, 24)
		var second msgCase
		switch k := rapid.IntRange(0, 5).Draw(t, "pairing"); {
		case k <= 2 && counterpart[first.Struct] != "":
			second = fill(t, counterpart[first.Struct])
			s.Class("same code, other direction")
		case k == 3:
			second = fill(t, first.Struct)
			s.Class("same structure twice")
		default:
			second = genMsg(t, 24)
			s.Class("unrelated structures")
		}
		return reuseCase{first, second, rapid.IntRange(0, 5).Draw(t, "emptySecond") == 0}
	}, checkMessageReuse, func(c reuseCase) bool { return len(c.First.Fields) > 0 })
}

// ---- the three SecurityFeatures kinds, decode side ----------------------------------------------------------------
//
// Header.Unmarshal always installs the Reserved kind, so the decoders of the other two kinds are reached only when a
// caller decodes the 8 bytes with the kind the transport calls for. MS-CIFS 2.2.3.1: SecuritySignature (8 bytes);
// connectionless transport: Key (4 bytes), CID (2 bytes), SequenceNumber (2 bytes), little-endian; otherwise
// Reserved (8 bytes). Each kind decodes 8 reference bytes directly; the fields must be those the layout gives,
// 8 bytes are consumed, and encoding the decoded value gives the 8 bytes back.

type secCase struct {
	Kind  int    `json:"security_features_kind"` // 0 reserved, 1 signature, 2 connectionless
	Bytes vf.Hex `json:"bytes"`
}

func checkSecurityFeatures(c secCase) []vf.Finding {
	if len(c.Bytes) != 8 {
		return []vf.Finding{vf.F("harness", "bad-case", "%d bytes", len(c.Bytes))}
	}
	in := make([]byte, 8) // exact capacity
	copy(in, c.Bytes)
	var sf securityfeatures.SecurityFeatures
	var subject string
	var same func() string
	switch c.Kind {
	case 1:
		v := securityfeatures.NewSecurityFeaturesSecuritySignature()
		sf, subject = v, "SecurityFeaturesSecuritySignature"
		same = func() string {
			if got := v.GetSecuritySignature(); !bytes.Equal(got[:], c.Bytes) || !bytes.Equal(v.SecuritySignature[:], c.Bytes) {
				return fmt.Sprintf("signature %x", got)
			}
			return ""
		}
	case 2:
		v := securityfeatures.NewSecurityFeaturesConnectionlessTransport()
		sf, subject = v, "SecurityFeaturesConnectionlessTransport"
		same = func() string {
			key, cid, seq := binary.LittleEndian.Uint32(c.Bytes[0:4]), binary.LittleEndian.Uint16(c.Bytes[4:6]), binary.LittleEndian.Uint16(c.Bytes[6:8])
			if v.Key != key || v.CID != cid || v.SequenceNumber != seq {
				return fmt.Sprintf("Key %#x CID %#x SequenceNumber %#x, the layout gives %#x %#x %#x", v.Key, v.CID, v.SequenceNumber, key, cid, seq)
			}
			return ""
		}
	default:
		v := securityfeatures.NewSecurityFeaturesReserved()
		sf, subject = v, "SecurityFeaturesReserved"
		same = func() string {
			if !bytes.Equal(v.Reserved[:], c.Bytes) {
				return fmt.Sprintf("reserved %x", v.Reserved)
			}
			return ""
		}
	}
	n, err := safeBlock(sf, in)
	if err != nil || n != 8 {
		return []vf.Finding{vf.F(subject+".Unmarshal", "reference-security-features-rejected", "n=%d err=%v", n, err)}
	}
	var fs []vf.Finding
	if msg := same(); msg != "" {
		fs = append(fs, vf.F(subject+".Unmarshal", "decoded-security-features-differ", "bytes %x decoded as %s", []byte(c.Bytes), msg))
	}
	if again, err := sf.Marshal(); err != nil || !bytes.Equal(again, c.Bytes) {
		fs = append(fs, vf.F(subject+".Marshal", "security-features-do-not-round-trip", "bytes %x decoded and encoded again: %x (err %v)", []byte(c.Bytes), again, err))
	}
	return fs
}

func TestSecurityFeaturesDecode(t *testing.T) {
	s := vf.Begin(t, P, "security-features-decode")
	vf.Rapid(s, vf.N(3000, 50000), func(t *rapid.T) secCase {
		kind := rapid.IntRange(0, 2).Draw(t, "secKind")
		if rapid.IntRange(0, 3).Draw(t, "any") == 0 {
			return secCase{kind, rapid.SliceOfN(rapid.Byte(), 8, 8).Draw(t, "bytes")}
		}
		return secCase{kind, rapid.SliceOfNDistinct(rapid.ByteRange(1, 254), 8, 8, rapid.ID[byte]).Draw(t, "distinct")}
	}, checkSecurityFeatures, func(c secCase) bool { return !bytes.Equal(c.Bytes, make([]byte, 8)) })
}

// ---- histories with a change between two Marshal calls -------------------------------------------------------------
//
// A Message is a value the caller keeps: it is encoded, some of its fields are given new values (a retransmission
// with another MID, the next request on the same structure ...) and it is encoded again. The second encoding
// must be that of the message as it is now - byte for byte what a newly built message with the new values gives -
// and decode back to the new header. Likewise a Message that has been encoded and then decodes a packet must give
// what a new Message gives for that packet. (repeat-marshal only repeats Marshal on an untouched message.)

type changeCase struct {
	Before msgCase `json:"message"`
	// After: the same structure with the values the message has when it is encoded the second time
	After   msgCase `json:"message_after_change"`
	Changed string  `json:"changed"`
	// Packet: instead of changing fields, the encoded message decodes this packet and is compared with a new Message
	Packet *msgCase `json:"then_decodes_packet,omitempty"`
}

// assign gives an existing header the field values of c, field by field, as a caller would.
func (c hdrCase) assign(h *header.Header, reply bool) {
	n := c.lib()
	h.Status = n.Status // the command code is the structure's (AddCommand set it) and stays
	h.SetFlags(c.Flags &^ 0x80)
	if reply {
		h.SetFlags(c.Flags | 0x80)
	}
	h.SetFlags2(c.Flags2)
	h.PIDHigh, h.Reserved, h.TID, h.PIDLow, h.UID, h.MID = c.PIDHigh, c.Reserved, c.TID, c.PIDLow, c.UID, c.MID
	h.SecurityFeatures = n.SecurityFeatures
}

func safeMessageMarshal(m *message.Message) (b []byte, err error) {
	defer func() {
		if r := recover(); r != nil {
			err = fmt.Errorf("panic: %v", r)
		}
	}()
	return m.Marshal()
}

func checkChange(c changeCase) []vf.Finding {
	m, err := c.Before.build()
	if err != nil {
		return []vf.Finding{vf.F("harness", "bad-case", "%v", err)}
	}
	first, err := safeMessageMarshal(m)
	if err != nil {
		return nil // not encodable: framing judges that (a refusal by the command alone is C04/C05's subject)
	}
	first = append([]byte{}, first...)
	subject := c.Before.Struct
	if c.Packet != nil {
		w, err := wireOf(*c.Packet, false)
		if err != nil {
			return nil
		}
		fresh := message.NewMessage()
		if err := safeUnmarshal(fresh, append([]byte{}, w...)); err != nil {
			return nil // the packet does not decode on its own: reported by framing
		}
		if err := safeUnmarshal(m, append([]byte{}, w...)); err != nil {
			return []vf.Finding{vf.F(c.Packet.Struct, "encoded-message-rejects-packet-a-new-one-accepts", "after encoding a %s message: %v", subject, err)}
		}
		ft, fh, fa, ferr := describe(fresh)
		rt, rh, ra, rerr := describe(m)
		if ft != rt || !bytes.Equal(fh, rh) || (ferr == nil) != (rerr == nil) || (ferr == nil && !bytes.Equal(fa, ra)) {
			return []vf.Finding{vf.F(c.Packet.Struct, "encoded-message-decodes-packet-differently", "a Message that had encoded a %s message decodes the packet as %s (header %x, re-encoded %d bytes, err %v), a new Message as %s (header %x, %d bytes, err %v)", subject, rt, rh, len(ra), rerr, ft, fh, len(fa), ferr)}
		}
		return nil
	}
	if c.After.Struct != c.Before.Struct {
		return []vf.Finding{vf.F("harness", "bad-case", "the change replaces the structure")}
	}
	e, _ := smbgen.ByName(c.Before.Struct)
	c.After.Header.assign(m.Header, e.Response)
	if err := smbgen.Restore(m.Command, c.After.Fields); err != nil {
		return []vf.Finding{vf.F("harness", "bad-case", "%v", err)}
	}
	second, err2 := safeMessageMarshal(m)
	fm, err := c.After.build()
	if err != nil {
		return []vf.Finding{vf.F("harness", "bad-case", "%v", err)}
	}
	want, werr := safeMessageMarshal(fm)
	if werr != nil {
		return nil // the new values are not encodable on their own: framing judges that
	}
	if err2 != nil {
		return []vf.Finding{vf.F(subject, "marshal-after-change-fails", "changed %s: %v (a new message with the same values encodes)", c.Changed, err2)}
	}
	if !bytes.Equal(second, want) {
		d := 0
		for d < len(second) && d < len(want) && second[d] == want[d] {
			d++
		}
		kind := "marshal-after-change-differs-from-new-message"
		if bytes.Equal(second, first) && !bytes.Equal(first, want) {
			kind = "marshal-after-change-repeats-earlier-encoding"
		}
		return []vf.Finding{vf.F(subject, kind, "changed %s: %d bytes, a new message with the same values gives %d bytes, first difference at byte %d", c.Changed, len(second), len(want), d)}
	}
	// and it decodes to the header the message has now
	back := message.NewMessage()
	if err := safeUnmarshal(back, append([]byte{}, second...)); err == nil {
		if hb, _ := back.Header.Marshal(); !bytes.Equal(hb, mustHeader(m)) {
			return []vf.Finding{vf.F(subject, "decoded-header-fields-differ", "after a change of %s: %x vs %x", c.Changed, hb, mustHeader(m))}
		}
	}
	return nil
}

// changeHeader returns c with one field replaced by the value it has in o (the kind of SecurityFeatures stays).
func changeHeader(t *rapid.T, c, o hdrCase) (hdrCase, string) {
	switch rapid.IntRange(0, 9).Draw(t, "headerField") {
	case 0:
		c.Status = o.Status
		return c, "Status"
	case 1:
		c.Flags = o.Flags
		return c, "Flags"
	case 2:
		c.Flags2 = o.Flags2
		return c, "Flags2"
	case 3:
		c.PIDHigh = o.PIDHigh
		return c, "PIDHigh"
	case 4:
		c.Security = o.Security
		return c, "SecurityFeatures"
	case 5:
		c.TID = o.TID
		return c, "TID"
	case 6:
		c.PIDLow = o.PIDLow
		return c, "PIDLow"
	case 7:
		c.UID = o.UID
		return c, "UID"
	case 8:
		c.Reserved = o.Reserved
		return c, "Reserved"
	}
	c.MID = o.MID
	return c, "MID"
}

func TestMarshalAfterChange(t *testing.T) {
	s := vf.Begin(t, P, "marshal-after-change")
	names := smbgen.Names()
	per := vf.N(6, 100)
	idx := 0
	vf.Rapid(s, len(names)*per, func(t *rapid.T) changeCase {
		name := names[(idx/per)%len(names)]
		idx++
		e, _ := smbgen.ByName(name)
		fill := func() map[string]json.RawMessage {
			cmd := smbgen.New(e)
			smbgen.Fill(t, cmd, smbgen.Options{MaxBytes: 24})
			return smbgen.Snapshot(cmd)
		}
		before := msgCase{genHdr(t), name, fill(), 2}
		other := msgCase{genHdr(t), name, fill(), 2}
		switch rapid.IntRange(0, 5).Draw(t, "history") {
		case 0:
			s.Class("marshal, decode a packet")
			p := genMsg(t, 24)
			return changeCase{Before: before, After: before, Changed: "nothing", Packet: &p}
		case 1, 2:
			s.Class("marshal, change every field, marshal")
			return changeCase{Before: before, After: other, Changed: "every field"}
		}
		s.Class("marshal, change one header field and one command field, marshal")
		after := before
		var hf string
		after.Header, hf = changeHeader(t, before.Header, other.Header)
		own := smbgen.OwnFields(smbgen.New(e))
		if len(own) == 0 {
			return changeCase{Before: before, After: after, Changed: "Header." + hf}
		}
		f := own[rapid.IntRange(0, len(own)-1).Draw(t, "commandField")].Name
		cmd := smbgen.New(e)
		smbgen.Restore(cmd, before.Fields)
		smbgen.Restore(cmd, map[string]json.RawMessage{f: other.Fields[f]})
		smbgen.ApplyRelations(cmd) // the counts follow a changed buffer: the assignment stays consistent
		after.Fields = smbgen.Snapshot(cmd)
		return changeCase{Before: before, After: after, Changed: "Header." + hf + " and " + f}
	}, checkChange, func(c changeCase) bool {
		if c.Packet != nil {
			return len(c.Packet.Fields) > 0
		}
		a, _ := json.Marshal(c.Before)
		b, _ := json.Marshal(c.After)
		return !bytes.Equal(a, b)
	})
}
