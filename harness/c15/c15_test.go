// Package c15: Windows time and duration conversions are exact, inverse and overflow-free.
package c15

import (
	"encoding/binary"
	"math"
	"math/big"
	"strconv"
	"testing"
	"time"

	"pgregory.net/rapid"

	"github.com/TheManticoreProject/Manticore/crypto/uuid/uuid_v1"
	"github.com/TheManticoreProject/Manticore/crypto/uuid/uuid_v2"
	"github.com/TheManticoreProject/Manticore/network/ldap"
	"github.com/TheManticoreProject/Manticore/windows/keycredential/key"
	kcutils "github.com/TheManticoreProject/Manticore/windows/keycredential/utils"
	"github.com/TheManticoreProject/Manticore/windows/ms_dtyp/common/data_structures"

	"manticoreverif/ref/wintime"
	"manticoreverif/vf"
)

const P = "C15"

const epoch1601Ticks = 116444736000000000 // 1970 in FILETIME ticks
const epoch1582Ticks = 122192928000000000 // 1970 in UUID ticks

// Tick values at which the naive int64-nanosecond arithmetic wraps.
var (
	minNsTime = time.Unix(0, math.MinInt64) // 1677-09-21
	maxNsTime = time.Unix(0, math.MaxInt64) // 2262-04-11
)

func anchors(epochTicks int64, epochUnix int64) []int64 {
	a := []int64{0, 1, epochTicks, math.MaxInt64, math.MaxInt64 / 100, math.MaxInt64/100 + epochTicks,
		int64(uint64(math.MaxUint64) / 100 / 2), // 2^63/100
		wintime.TimeToTicks(minNsTime, epochUnix).Int64(), wintime.TimeToTicks(maxNsTime, epochUnix).Int64(),
		epochTicks - 10_000_000, epochTicks + 10_000_000,
	}
	u := uint64(math.MaxUint64) / 100 // 2^64/100
	if u <= math.MaxInt64 {
		a = append(a, int64(u))
	}
	return a
}

const sevenCenturies = int64(700*365*24*3600) * 10_000_000 // in ticks: 2.2e17

// genTicks draws a non-negative int64 tick count: uniform, within seven centuries of the epoch, or
// near an anchor.
func genTicks(t *rapid.T, epochTicks int64, epochUnix int64, max int64) int64 {
	switch rapid.IntRange(0, 5).Draw(t, "tickClass") {
	case 0, 1:
		return rapid.Int64Range(0, max).Draw(t, "ticks")
	case 2:
		// a date people use: within 700 years of the epoch (1601..2300 for FILETIME, 1582..2282 for UUIDs)
		return rapid.Int64Range(0, min(max, sevenCenturies)).Draw(t, "ticksNear")
	default:
		as := anchors(epochTicks, epochUnix)
		a := as[rapid.IntRange(0, len(as)-1).Draw(t, "anchor")]
		var d int64
		if rapid.Bool().Draw(t, "tight") {
			d = rapid.Int64Range(-3, 3).Draw(t, "d")
		} else {
			d = rapid.Int64Range(-20_000_000, 20_000_000).Draw(t, "d")
		}
		v := a + d
		if (d > 0 && v < a) || v < 0 {
			v = a
		}
		if v > max {
			v = max
		}
		return v
	}
}

// genSignedTicks extends genTicks to the whole int64 range: FILETIME.ToInt64 defines the tick value
// as a signed 64-bit number, so bit patterns with the top bit set are times before 1601. Anchors:
// the type minimum, the point where (ticks - epoch) leaves int64, -1 and whole-second boundaries.
func genSignedTicks(t *rapid.T, epochTicks int64, epochUnix int64) int64 {
	switch rapid.IntRange(0, 5).Draw(t, "signClass") {
	case 0:
		return rapid.Int64Range(math.MinInt64, -1).Draw(t, "negTicks")
	case 1:
		as := []int64{math.MinInt64, math.MinInt64 + epochTicks, -1, -10_000_000, -epochTicks, math.MinInt64 / 100}
		a := as[rapid.IntRange(0, len(as)-1).Draw(t, "negAnchor")]
		var d int64
		if rapid.Bool().Draw(t, "tight") {
			d = rapid.Int64Range(-3, 3).Draw(t, "d")
		} else {
			d = rapid.Int64Range(-20_000_000, 20_000_000).Draw(t, "d")
		}
		v := a + d
		if d < 0 && v > a { // wrapped below the minimum
			v = a
		}
		return v
	default:
		return genTicks(t, epochTicks, epochUnix, math.MaxInt64)
	}
}

func interestingTicks(v int64, epochTicks int64, epochUnix int64) bool {
	tm := wintime.TicksToTime(big.NewInt(v), epochUnix)
	if tm.Year() < 1970 || tm.Year() > 2100 {
		return true
	}
	for _, a := range anchors(epochTicks, epochUnix) {
		if d := v - a; d > -10_000_000 && d < 10_000_000 {
			return true
		}
	}
	return false
}

// genZone draws the Location of a generated time. A time.Time is an instant plus a presentation
// zone; every conversion here is defined on the instant, so the zone must not matter: UTC, the
// offsets in use today (whole hours, :30 and :45, both signs, the +14:00 / -12:00 extremes), and
// arbitrary offsets to the second (local mean time zones before standard time have such offsets).
func genZone(t *rapid.T) *time.Location {
	var off int
	switch rapid.IntRange(0, 3).Draw(t, "zoneClass") {
	case 0:
		return time.UTC
	case 1:
		off = rapid.SampledFrom([]int{3600, -3600, -18000, 19800, -12600, 20700, 45900, 50400, -43200, 1, -1}).Draw(t, "zoneKnown")
	case 2:
		off = 60 * rapid.IntRange(-14*60, 14*60).Draw(t, "zoneMinutes")
	default:
		off = rapid.IntRange(-14*3600, 14*3600).Draw(t, "zoneSeconds")
	}
	return zone(off)
}

func zone(off int) *time.Location {
	if off == 0 {
		return time.UTC
	}
	return time.FixedZone("", off)
}

// genTime draws a Go time in [1601, 30828] that is a whole number of ticks, in a zone of its own.
func genTime(t *rapid.T, minUnix, maxUnix int64) time.Time {
	var sec int64
	switch rapid.IntRange(0, 3).Draw(t, "timeClass") {
	case 0:
		sec = rapid.Int64Range(minUnix, maxUnix).Draw(t, "sec")
	case 1:
		sec = rapid.Int64Range(-12219292800, 10413792000).Draw(t, "secNear") // 1582..2300
	default:
		as := []int64{0, minNsTime.Unix(), maxNsTime.Unix(), minUnix, maxUnix, -1, 1}
		sec = as[rapid.IntRange(0, len(as)-1).Draw(t, "anchor")] + rapid.Int64Range(-3, 3).Draw(t, "d")
	}
	if sec < minUnix {
		sec = minUnix
	}
	if sec > maxUnix {
		sec = maxUnix
	}
	ns := int64(0)
	switch rapid.IntRange(0, 2).Draw(t, "nsClass") {
	case 0:
		ns = rapid.Int64Range(0, 9_999_999).Draw(t, "ticksInSec") * 100
	case 1:
		ns = rapid.SampledFrom([]int64{0, 100, 999_999_900, 500_000_000}).Draw(t, "nsEdge")
	}
	return time.Unix(sec, ns).In(genZone(t))
}

const maxFiletimeUnix = int64(910692730085) // floor((2^63-1 - epoch)/1e7)

type tickCase struct {
	Ticks int64 `json:"ticks"`
}
type timeCase struct {
	Sec  int64 `json:"unix_sec"`
	Nsec int64 `json:"nsec"`
	Zone int   `json:"zone_offset_s,omitempty"` // seconds east of UTC of the value's Location
}

func (c timeCase) T() time.Time { return time.Unix(c.Sec, c.Nsec).In(zone(c.Zone)) }

func tc(t time.Time) timeCase {
	_, off := t.Zone()
	return timeCase{t.Unix(), int64(t.Nanosecond()), off}
}

// ---- FILETIME -----------------------------------------------------------------

func checkFiletimeFromTime(c timeCase) []vf.Finding {
	var fs []vf.Finding
	tm := c.T()
	want := wintime.TimeToTicks(tm, wintime.Epoch1601Unix)
	if !want.IsInt64() || want.Sign() < 0 {
		return nil
	}
	ft := data_structures.NewFILETIMEFromTime(tm)
	got := int64(uint64(ft.DwHighDateTime)<<32 | uint64(ft.DwLowDateTime))
	if got != want.Int64() {
		fs = append(fs, vf.F("NewFILETIMEFromTime", "ticks-differ-from-exact", "%v: got %d want %s", tm, got, want))
		return fs
	}
	if ft.ToInt64() != got {
		fs = append(fs, vf.F("FILETIME.ToInt64", "not-the-64-bit-value", "hi %#x lo %#x -> %d", ft.DwHighDateTime, ft.DwLowDateTime, ft.ToInt64()))
	}
	if back := ft.GetTime(); !back.Equal(tm) {
		fs = append(fs, vf.F("FILETIME.GetTime", "inverse-pair-differs", "%v -> %d -> %v", tm, got, back.UTC()))
	}
	return fs
}

func TestFiletimeFromTime(t *testing.T) {
	s := vf.Begin(t, P, "filetime-from-time")
	vf.Rapid(s, vf.N(30000, 400000), func(t *rapid.T) timeCase { return tc(genTime(t, wintime.Epoch1601Unix, maxFiletimeUnix)) },
		checkFiletimeFromTime, func(c timeCase) bool { y := c.T().Year(); return y < 1970 || y > 2100 })
}

func checkFiletimeGetTime(c tickCase) []vf.Finding {
	var fs []vf.Finding
	ft := &data_structures.FILETIME{DwLowDateTime: uint32(uint64(c.Ticks)), DwHighDateTime: uint32(uint64(c.Ticks) >> 32)}
	if ft.ToInt64() != c.Ticks {
		fs = append(fs, vf.F("FILETIME.ToInt64", "not-the-64-bit-value", "%d -> %d", c.Ticks, ft.ToInt64()))
	}
	want := wintime.TicksToTime(big.NewInt(c.Ticks), wintime.Epoch1601Unix)
	if got := ft.GetTime(); !got.Equal(want) {
		fs = append(fs, vf.F("FILETIME.GetTime", "time-differs-from-exact", "ticks %d: got %v want %v", c.Ticks, got.UTC(), want))
	}
	if got := ft.GetUnixTimestamp(); got != want.Unix() {
		fs = append(fs, vf.F("FILETIME.GetUnixTimestamp", "seconds-differ-from-exact", "ticks %d: got %d want %d", c.Ticks, got, want.Unix()))
	}
	if back := data_structures.NewFILETIMEFromTime(want); back.ToInt64() != c.Ticks {
		fs = append(fs, vf.F("NewFILETIMEFromTime", "inverse-pair-differs", "ticks %d -> %v -> %d", c.Ticks, want, back.ToInt64()))
	}
	b, _ := ft.Marshal()
	if binary.LittleEndian.Uint64(b) != uint64(c.Ticks) {
		fs = append(fs, vf.F("FILETIME.Marshal", "not-little-endian-64", "%d -> %x", c.Ticks, b))
	}
	return fs
}

func TestFiletimeGetTime(t *testing.T) {
	s := vf.Begin(t, P, "filetime-get-time")
	vf.Rapid(s, vf.N(30000, 400000), func(t *rapid.T) tickCase {
		return tickCase{genSignedTicks(t, epoch1601Ticks, wintime.Epoch1601Unix)}
	}, checkFiletimeGetTime, func(c tickCase) bool { return interestingTicks(c.Ticks, epoch1601Ticks, wintime.Epoch1601Unix) })
}

// ---- LDAP -----------------------------------------------------------------------

type strCase struct {
	V int64 `json:"value"`
}

func checkLDAPTsToUnix(c strCase) []vf.Finding {
	got := ldap.ConvertLDAPTimeStampToUnixTimeStamp(strconv.FormatInt(c.V, 10))
	var want int64
	if c.V >= epoch1601Ticks {
		s, _ := wintime.TicksToUnix(big.NewInt(c.V), wintime.Epoch1601Unix)
		want = s.Int64()
	}
	if got != want {
		return []vf.Finding{vf.F("ldap.ConvertLDAPTimeStampToUnixTimeStamp", "seconds-differ-from-exact", "%d: got %d want %d", c.V, got, want)}
	}
	return nil
}

func genSigned(t *rapid.T) int64 {
	switch rapid.IntRange(0, 3).Draw(t, "class") {
	case 0:
		return rapid.Int64().Draw(t, "v")
	case 1:
		return -genTicks(t, epoch1601Ticks, wintime.Epoch1601Unix, math.MaxInt64)
	case 2:
		return rapid.SampledFrom([]int64{math.MinInt64, math.MinInt64 + 1, math.MaxInt64, -1, 0, 1, -9_999_999, -10_000_000, -10_000_001}).Draw(t, "edge")
	default:
		return genTicks(t, epoch1601Ticks, wintime.Epoch1601Unix, math.MaxInt64)
	}
}

func TestLDAPTimestampToUnix(t *testing.T) {
	s := vf.Begin(t, P, "ldap-timestamp-to-unix")
	vf.Rapid(s, vf.N(30000, 400000), func(t *rapid.T) strCase { return strCase{genSigned(t)} }, checkLDAPTsToUnix,
		func(c strCase) bool {
			return c.V >= epoch1601Ticks && interestingTicks(c.V, epoch1601Ticks, wintime.Epoch1601Unix)
		})
}

func checkLDAPUnixToTs(c timeCase) []vf.Finding {
	tm := c.T()
	want := new(big.Int).Mul(big.NewInt(tm.Unix()), big.NewInt(10_000_000))
	want.Add(want, big.NewInt(epoch1601Ticks))
	if !want.IsInt64() {
		return nil
	}
	got := ldap.ConvertUnixTimeStampToLDAPTimeStamp(tm)
	if got != want.Int64() {
		return []vf.Finding{vf.F("ldap.ConvertUnixTimeStampToLDAPTimeStamp", "ticks-differ-from-exact", "%v: got %d want %s", tm, got, want)}
	}
	// inverse at one-second resolution (post-1970: the documented clamp maps earlier values to 0)
	back := ldap.ConvertLDAPTimeStampToUnixTimeStamp(strconv.FormatInt(got, 10))
	wantBack := tm.Unix()
	if tm.Unix() < 0 {
		wantBack = 0
	}
	if back != wantBack {
		return []vf.Finding{vf.F("ldap.ConvertLDAPTimeStampToUnixTimeStamp", "inverse-pair-differs", "%v -> %d -> %d want %d", tm, got, back, wantBack)}
	}
	return nil
}

func TestLDAPUnixToTimestamp(t *testing.T) {
	s := vf.Begin(t, P, "ldap-unix-to-timestamp")
	vf.Rapid(s, vf.N(30000, 400000), func(t *rapid.T) timeCase { return tc(genTime(t, wintime.Epoch1601Unix, maxFiletimeUnix)) },
		checkLDAPUnixToTs, func(c timeCase) bool { y := c.T().Year(); return y < 1970 || y > 2100 })
}

func checkLDAPDuration(c strCase) []vf.Finding {
	abs := new(big.Int).Abs(big.NewInt(c.V))
	want := new(big.Int).Div(abs, big.NewInt(10_000_000)).Int64()
	got := ldap.ConvertLDAPDurationToSeconds(strconv.FormatInt(c.V, 10))
	if got != want {
		return []vf.Finding{vf.F("ldap.ConvertLDAPDurationToSeconds", "seconds-differ-from-exact", "%d: got %d want %d", c.V, got, want)}
	}
	return nil
}

func TestLDAPDurationToSeconds(t *testing.T) {
	s := vf.Begin(t, P, "ldap-duration-to-seconds")
	vf.Rapid(s, vf.N(30000, 400000), func(t *rapid.T) strCase { return strCase{genSigned(t)} }, checkLDAPDuration,
		func(c strCase) bool { return c.V < 0 })
}

func checkLDAPSecondsToDuration(c strCase) []vf.Finding {
	want := new(big.Int).Mul(big.NewInt(c.V), big.NewInt(10_000_000))
	if !want.IsInt64() {
		return nil // not representable as a 64-bit duration: outside the function's domain
	}
	got := ldap.ConvertSecondsToLDAPDuration(c.V)
	if got != want.String() {
		return []vf.Finding{vf.F("ldap.ConvertSecondsToLDAPDuration", "ticks-differ-from-exact", "%d: got %s want %s", c.V, got, want)}
	}
	back := ldap.ConvertLDAPDurationToSeconds(got)
	abs := c.V
	if abs < 0 {
		abs = -abs
	}
	if back != abs {
		return []vf.Finding{vf.F("ldap.ConvertLDAPDurationToSeconds", "inverse-pair-differs", "%d -> %s -> %d", c.V, got, back)}
	}
	return nil
}

func TestLDAPSecondsToDuration(t *testing.T) {
	s := vf.Begin(t, P, "ldap-seconds-to-duration")
	lim := int64(math.MaxInt64 / 10_000_000)
	vf.Rapid(s, vf.N(30000, 400000), func(t *rapid.T) strCase {
		switch rapid.IntRange(0, 2).Draw(t, "class") {
		case 0:
			return strCase{rapid.Int64Range(-lim, lim).Draw(t, "v")}
		case 1:
			return strCase{rapid.SampledFrom([]int64{lim, -lim, lim - 1, 0, 1, -1, 86400, -86400}).Draw(t, "edge")}
		default:
			return strCase{rapid.Int64Range(-100_000_000, 100_000_000).Draw(t, "small")}
		}
	}, checkLDAPSecondsToDuration, func(c strCase) bool { return c.V > 86400*365 || c.V < 0 })
}

// ---- key-credential DateTime --------------------------------------------------------

type utickCase struct {
	Ticks uint64 `json:"ticks"`
}

var versions = []uint32{key.KeyCredentialVersion_0, key.KeyCredentialVersion_1, key.KeyCredentialVersion_2}
var sources = []key.KeySource{key.KeySource_AD, key.KeySource_AzureAD}

func checkDateTime(c utickCase) []vf.Finding {
	var fs []vf.Finding
	want := wintime.TicksToTime(new(big.Int).SetUint64(c.Ticks), wintime.Epoch1601Unix)
	dt := kcutils.NewDateTime(c.Ticks)
	if dt.ToTicks() != c.Ticks {
		fs = append(fs, vf.F("DateTime.ToTicks", "ticks-not-preserved", "%d -> %d", c.Ticks, dt.ToTicks()))
	}
	if !dt.Time.Equal(want) || !dt.ToUniversalTime().Equal(want) {
		fs = append(fs, vf.F("NewDateTime", "time-differs-from-exact", "ticks %d: got %v want %v", c.Ticks, dt.Time.UTC(), want))
	}
	raw := dt.ToBytes()
	if len(raw) != 8 || binary.LittleEndian.Uint64(raw) != c.Ticks {
		fs = append(fs, vf.F("DateTime.ToBytes", "not-little-endian-64", "%d -> %x", c.Ticks, raw))
		return fs
	}
	for _, v := range versions {
		for _, src := range []key.KeySource{key.KeySource_AD, key.KeySource_AzureAD} {
			back := kcutils.ConvertFromBinaryTime(raw, src, key.KeyCredentialVersion{Value: v})
			if back.ToTicks() != c.Ticks || !back.Time.Equal(want) {
				fs = append(fs, vf.F("ConvertFromBinaryTime", "inverse-pair-differs", "ticks %d version %#x: got ticks %d time %v", c.Ticks, v, back.ToTicks(), back.Time.UTC()))
				return fs
			}
		}
	}
	return fs
}

func TestKeyCredDateTime(t *testing.T) {
	s := vf.Begin(t, P, "keycred-datetime")
	vf.Rapid(s, vf.N(30000, 400000), func(t *rapid.T) utickCase {
		if rapid.IntRange(0, 4).Draw(t, "wide") == 0 {
			return utickCase{rapid.Uint64Range(1, math.MaxUint64).Draw(t, "u")}
		}
		v := genTicks(t, epoch1601Ticks, wintime.Epoch1601Unix, math.MaxInt64)
		if v < 1 {
			v = 1 // NewDateTime(0) is documented to mean "now"
		}
		return utickCase{uint64(v)}
	}, checkDateTime, func(c utickCase) bool {
		return c.Ticks > math.MaxInt64 || interestingTicks(int64(c.Ticks), epoch1601Ticks, wintime.Epoch1601Unix)
	})
}

// NewDateTime(0) is documented to mean "now": the value is not predictable, but the pair it returns
// must be one DateTime: its Ticks and its Time name the same instant, at tick resolution, and ToBytes
// carries those ticks. No clock is read here; the library's two answers are compared with each other.
type nowCase struct {
	Call int `json:"call"`
}

func checkDateTimeNow(c nowCase) []vf.Finding {
	var fs []vf.Finding
	dt := kcutils.NewDateTime(0)
	if dt.Ticks == 0 {
		return []vf.Finding{vf.F("NewDateTime(0)", "now-has-no-ticks", "Ticks 0 next to Time %v", dt.Time.UTC())}
	}
	// within one tick either way: how the sub-tick part of the clock reading is rounded is not specified
	want := wintime.TimeToTicks(dt.Time, wintime.Epoch1601Unix)
	if diff := new(big.Int).Sub(want, new(big.Int).SetUint64(dt.Ticks)); diff.CmpAbs(big.NewInt(1)) > 0 {
		fs = append(fs, vf.F("NewDateTime(0)", "ticks-and-time-disagree", "Ticks %d next to Time %v (= %s ticks)", dt.Ticks, dt.Time.UTC(), want))
	}
	again := kcutils.NewDateTime(dt.Ticks)
	if d := dt.Time.Sub(again.Time); d < -100*time.Nanosecond || d > 100*time.Nanosecond {
		fs = append(fs, vf.F("NewDateTime(0)", "ticks-and-time-disagree", "NewDateTime(its Ticks %d).Time = %v, its Time %v (%v apart)", dt.Ticks, again.Time.UTC(), dt.Time.UTC(), d))
	}
	if raw := dt.ToBytes(); len(raw) != 8 || binary.LittleEndian.Uint64(raw) != dt.Ticks {
		fs = append(fs, vf.F("DateTime.ToBytes", "not-little-endian-64", "%d -> %x", dt.Ticks, raw))
	}
	return fs
}

func TestKeyCredDateTimeNow(t *testing.T) {
	s := vf.Begin(t, P, "keycred-datetime-now")
	vf.Enum(s, func(yield func(nowCase)) {
		for i := 0; i < vf.N(50, 500); i++ {
			yield(nowCase{i})
		}
	}, checkDateTimeNow, nil)
}

func checkBinaryTime(c timeCase) []vf.Finding {
	tm := c.T()
	want := wintime.TimeToTicks(tm, wintime.Epoch1601Unix)
	if !want.IsUint64() || want.Sign() <= 0 {
		return nil
	}
	// every (version, source) pair the two functions branch on
	for _, v := range versions {
		ver := key.KeyCredentialVersion{Value: v}
		for _, src := range sources {
			raw := kcutils.ConvertToBinaryTime(tm, src, ver)
			if len(raw) != 8 {
				return []vf.Finding{vf.F("ConvertToBinaryTime", "not-8-bytes", "%v version %#x source %d -> %x", tm, v, src, raw)}
			}
			back := kcutils.ConvertFromBinaryTime(raw, src, ver)
			if !back.Time.Equal(tm) {
				return []vf.Finding{vf.F("ConvertToBinaryTime", "inverse-pair-differs", "%v version %#x source %d -> %x -> %v (ticks %d, exact %s)", tm, v, src, raw, back.Time.UTC(), back.Ticks, want)}
			}
		}
	}
	return nil
}

func TestKeyCredBinaryTime(t *testing.T) {
	s := vf.Begin(t, P, "keycred-binary-time")
	vf.Rapid(s, vf.N(20000, 300000), func(t *rapid.T) timeCase { return tc(genTime(t, wintime.Epoch1601Unix+1, maxFiletimeUnix)) },
		checkBinaryTime, func(c timeCase) bool { y := c.T().Year(); return y < 1970 || y > 2100 })
}

// ---- UUID timestamps ------------------------------------------------------------------

const maxUUIDTicks = int64(1)<<60 - 1

type uuidTime interface {
	GetTime() time.Time
	SetTime(time.Time)
}

func checkUUIDGet(c tickCase) []vf.Finding {
	var fs []vf.Finding
	want := wintime.TicksToTime(big.NewInt(c.Ticks), wintime.Epoch1582Unix)
	u1 := &uuid_v1.UUIDv1{Time: uint64(c.Ticks)}
	if got := u1.GetTime(); !got.Equal(want) {
		fs = append(fs, vf.F("UUIDv1.GetTime", "time-differs-from-exact", "timestamp %d: got %v want %v", c.Ticks, got.UTC(), want))
	}
	u2 := &uuid_v2.UUIDv2{Time: uint64(c.Ticks)}
	if got := u2.GetTime(); !got.Equal(want) {
		fs = append(fs, vf.F("UUIDv2.GetTime", "time-differs-from-exact", "timestamp %d: got %v want %v", c.Ticks, got.UTC(), want))
	}
	return fs
}

func TestUUIDGetTime(t *testing.T) {
	s := vf.Begin(t, P, "uuid-get-time")
	vf.Rapid(s, vf.N(30000, 400000), func(t *rapid.T) tickCase {
		return tickCase{genTicks(t, epoch1582Ticks, wintime.Epoch1582Unix, maxUUIDTicks)}
	}, checkUUIDGet, func(c tickCase) bool { return interestingTicks(c.Ticks, epoch1582Ticks, wintime.Epoch1582Unix) })
}

func checkUUIDSet(c timeCase) []vf.Finding {
	var fs []vf.Finding
	tm := c.T()
	want := wintime.TimeToTicks(tm, wintime.Epoch1582Unix)
	if want.Sign() < 0 || want.Cmp(big.NewInt(maxUUIDTicks)) > 0 {
		return nil
	}
	u1 := &uuid_v1.UUIDv1{}
	u1.SetTime(tm)
	if u1.Time != want.Uint64() {
		fs = append(fs, vf.F("UUIDv1.SetTime", "ticks-differ-from-exact", "%v: got %d want %s", tm, u1.Time, want))
	} else if !u1.GetTime().Equal(tm) {
		fs = append(fs, vf.F("UUIDv1.GetTime", "inverse-pair-differs", "%v -> %d -> %v", tm, u1.Time, u1.GetTime().UTC()))
	}
	// A version 2 value carries bits 32..59 of the timestamp only (DCE 1.1: the low 32 bits give way to
	// the local identifier). That is the narrower side of this pair: the part of the timestamp the value
	// carries must be exact, whether Time also keeps the low 32 bits is the implementation's choice, and
	// GetTime must name the instant to within what the low 32 bits hold (less than 2^32 ticks).
	u2 := &uuid_v2.UUIDv2{}
	u2.SetTime(tm)
	if u2.Time>>32 != want.Uint64()>>32 {
		fs = append(fs, vf.F("UUIDv2.SetTime", "ticks-differ-from-exact", "%v: got %d want %s (bits 32..59: %#x want %#x)", tm, u2.Time, want, u2.Time>>32, want.Uint64()>>32))
	} else if got := wintime.TimeToTicks(u2.GetTime(), wintime.Epoch1582Unix); new(big.Int).Abs(new(big.Int).Sub(got, want)).Cmp(big.NewInt(1<<32)) >= 0 {
		fs = append(fs, vf.F("UUIDv2.GetTime", "inverse-pair-differs", "%v -> %d -> %v (2^32 ticks or more away)", tm, u2.Time, u2.GetTime().UTC()))
	}
	return fs
}

func TestUUIDSetTime(t *testing.T) {
	s := vf.Begin(t, P, "uuid-set-time")
	maxUnix := wintime.Epoch1582Unix + maxUUIDTicks/10_000_000
	vf.Rapid(s, vf.N(30000, 400000), func(t *rapid.T) timeCase { return tc(genTime(t, wintime.Epoch1582Unix, maxUnix)) },
		checkUUIDSet, func(c timeCase) bool { y := c.T().Year(); return y < 1970 || y > 2100 })
}

// ---- results are values of their own -------------------------------------------------------------
//
// "Exact and mutually inverse" is a statement about the value a caller holds, and a caller holds it
// while it converts the next one (the created / modified / accessed times of one file, the two
// timestamps of a credential): what was obtained for instant A - the *FILETIME, the marshalled bytes,
// the binary time - must still be A's after an unrelated instant B has been converted in other
// variables. (A constructor that fills one shared instance and returns its address, or an encoder
// that hands out slices of one buffer, satisfies every one-value comparison.)

type pairCase struct {
	A timeCase `json:"a"`
	B timeCase `json:"b"`
}

func checkIndependence(c pairCase) []vf.Finding {
	ta, tb := c.A.T(), c.B.T()
	wa, wb := wintime.TimeToTicks(ta, wintime.Epoch1601Unix), wintime.TimeToTicks(tb, wintime.Epoch1601Unix)
	if !wa.IsInt64() || wa.Sign() <= 0 || !wb.IsInt64() || wb.Sign() <= 0 {
		return nil
	}
	ticksA := wa.Int64()
	type kept struct {
		who  string
		live func() []byte
		snap []byte
	}
	var ks []kept
	keep := func(who string, b []byte) {
		ks = append(ks, kept{who, func() []byte { return b }, append([]byte{}, b...)})
	}
	keepText := func(who string, s string) {
		ks = append(ks, kept{who, func() []byte { return []byte(s) }, append([]byte{}, s...)})
	}
	// results for A ...
	fa := data_structures.NewFILETIMEFromTime(ta)
	if fa == nil {
		return []vf.Finding{vf.F("NewFILETIMEFromTime", "nil-result", "%v", ta)}
	}
	lo, hi := fa.DwLowDateTime, fa.DwHighDateTime
	if ma, err := fa.Marshal(); err == nil {
		keep("FILETIME.Marshal", ma)
	}
	keepText("FILETIME.String", fa.String())
	keepText("FILETIME.GetTimeString", fa.GetTimeString())
	for _, v := range versions {
		for _, src := range sources {
			keep("ConvertToBinaryTime", kcutils.ConvertToBinaryTime(ta, src, key.KeyCredentialVersion{Value: v}))
		}
	}
	da := kcutils.NewDateTime(uint64(ticksA))
	keep("DateTime.ToBytes", da.ToBytes())
	keepText("ldap.ConvertSecondsToLDAPDuration", ldap.ConvertSecondsToLDAPDuration(c.A.Sec%100_000_000))

	// ... then the conversions of an unrelated instant B, in other variables ...
	fb := data_structures.NewFILETIMEFromTime(tb)
	if fb != nil {
		if mb, err := fb.Marshal(); err == nil {
			var back data_structures.FILETIME
			back.Unmarshal(mb)
			_ = back.GetTime()
		}
		_, _, _ = fb.GetTime(), fb.String(), fb.GetTimeString()
	}
	for _, v := range versions {
		for _, src := range sources {
			raw := kcutils.ConvertToBinaryTime(tb, src, key.KeyCredentialVersion{Value: v})
			_ = kcutils.ConvertFromBinaryTime(raw, src, key.KeyCredentialVersion{Value: v})
		}
	}
	db := kcutils.NewDateTime(uint64(wb.Int64()))
	_ = db.ToBytes()
	_ = ldap.ConvertSecondsToLDAPDuration(c.B.Sec % 100_000_000)

	// ... and A's results are what they were.
	var fs []vf.Finding
	if fa.DwLowDateTime != lo || fa.DwHighDateTime != hi || fa.ToInt64() != int64(uint64(hi)<<32|uint64(lo)) {
		fs = append(fs, vf.F("NewFILETIMEFromTime", "result-changes-when-another-value-is-processed", "the FILETIME returned for %v held %d; after NewFILETIMEFromTime(%v) it holds %d", ta.UTC(), int64(uint64(hi)<<32|uint64(lo)), tb.UTC(), fa.ToInt64()))
	}
	for _, k := range ks {
		if now := k.live(); string(now) != string(k.snap) {
			fs = append(fs, vf.F(k.who, "result-changes-when-another-value-is-processed", "result for %v was %x, is %x after %v was converted", ta.UTC(), k.snap, now, tb.UTC()))
		}
	}
	if da.ToTicks() != uint64(ticksA) {
		fs = append(fs, vf.F("NewDateTime", "result-changes-when-another-value-is-processed", "DateTime for %d ticks holds %d after NewDateTime(%d)", ticksA, da.ToTicks(), wb.Int64()))
	}
	return fs
}

func TestResultIndependence(t *testing.T) {
	s := vf.Begin(t, P, "result-independence")
	vf.Rapid(s, vf.N(6000, 90000), func(t *rapid.T) pairCase {
		return pairCase{tc(genTime(t, wintime.Epoch1601Unix+1, maxFiletimeUnix)), tc(genTime(t, wintime.Epoch1601Unix+1, maxFiletimeUnix))}
	}, checkIndependence, func(c pairCase) bool { return c.A.Sec != c.B.Sec || c.A.Nsec != c.B.Nsec })
}

// ---- sentinels, exhaustively listed ---------------------------------------------------------

func TestSentinels(t *testing.T) {
	s := vf.Begin(t, P, "sentinels")
	s.SetExhaustive()
	type sc struct {
		Kind string `json:"kind"`
		V    int64  `json:"v"`
	}
	vf.Enum(s, func(yield func(sc)) {
		for _, v := range []int64{math.MaxInt64, math.MinInt64, 0, -1, 1, epoch1601Ticks, epoch1601Ticks - 1, epoch1601Ticks + 1} {
			yield(sc{"ldap-ts", v})
			yield(sc{"ldap-dur", v})
			yield(sc{"filetime", v})
			if v == math.MinInt64 {
				yield(sc{"filetime", v + epoch1601Ticks - 1}) // last value for which ticks-epoch leaves int64
				yield(sc{"filetime", v + epoch1601Ticks})
			}
			if v > 0 {
				yield(sc{"datetime", v})
			}
		}
	}, func(c sc) []vf.Finding {
		switch c.Kind {
		case "ldap-ts":
			return checkLDAPTsToUnix(strCase{c.V})
		case "ldap-dur":
			return checkLDAPDuration(strCase{c.V})
		case "filetime":
			return checkFiletimeGetTime(tickCase{c.V})
		default:
			return checkDateTime(utickCase{uint64(c.V)})
		}
	}, nil)
}
