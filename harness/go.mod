module manticoreverif

go 1.24.0

require (
	github.com/TheManticoreProject/Manticore v0.0.0
	github.com/anishathalye/porcupine v1.3.0
	golang.org/x/crypto v0.37.0
	pgregory.net/rapid v1.3.0
)

replace github.com/TheManticoreProject/Manticore => /repo
